"""x87sym: symbolic interpretation of the x87 `asm!` templates of rlib_f80 (parsed from the current source on every run)
over SMT-LIB FloatingPoint(15,64), plus a small translator for the Rust glue around them (gt/le/ge/partial_cmp/abs/eq)."""
import re, time
import z3

F80 = z3.FPSort(15, 64)
F64 = z3.FPSort(11, 53)
RNE = z3.RNE()


class Unsupported(Exception):
    pass


def fn_bodies(text):
    """{name: [body, ...]} for every `fn name(...) ... { body }` (brace matched)"""
    out = {}
    for m in re.finditer(r'\bfn\s+(\$?\w+)\s*\(([^)]*)\)[^{;]*\{', text):
        i = m.end()
        d = 1
        while d and i < len(text):
            d += {'{': 1, '}': -1}.get(text[i], 0)
            i += 1
        out.setdefault(m.group(1), []).append((m.group(2), text[m.end():i - 1], m.start()))
    return out


def asm_of(body):
    """-> (template lines, operand specs) of the single asm! block in a function body, or None"""
    m = re.search(r'core::arch::asm!\s*\{(.*?)\n\s*\}', body, re.S)
    if not m:
        return None
    blk = m.group(1)
    lines = re.findall(r'^\s*("(?:[^"\\]|\\.)*"|\$asm),?\s*$', blk, re.M)
    ops = re.findall(r'^\s*((?:in|out|inout|lateout)\([^)]*\)\s*[^,\n]+),?\s*$', blk, re.M)
    return lines, ops


def macro_instances(text):
    inst = {}
    for m in re.finditer(r'define_f80_(binary|unary)_op!\((\w+), (\w+), "([^"]*)"\);', text):
        inst[m.group(3)] = (m.group(1), m.group(4))
    return inst


class X87:
    """register-stack machine; operands: index -> (kind 'f80'|'f64', z3 value)"""

    def __init__(self, operands):
        self.st = []
        self.ops = operands
        self.out = {}
        self.flags = None
        self.regs = {}
        self.trace = []

    def run(self, lines):
        for raw in lines:
            l = re.sub(r'\s+', ' ', raw.strip().strip('"')).strip()
            self.trace.append(l)
            m = re.match(r'^fld (TBYTE|QWORD) PTR \[\{(\d+)\}\]$', l)
            if m:
                kind, v = self.ops[int(m.group(2))]
                want = 'f80' if m.group(1) == 'TBYTE' else 'f64'
                if kind != want:
                    raise Unsupported('operand width mismatch in `%s`: memory holds %s' % (l, kind))
                self.st.insert(0, v if kind == 'f80' else z3.fpToFP(RNE, v, F80))
                continue
            m = re.match(r'^fstp (TBYTE|QWORD) PTR \[\{(\d+)\}\]$', l)
            if m:
                v = self.st.pop(0)
                self.out[int(m.group(2))] = ('f80', v) if m.group(1) == 'TBYTE' else ('f64', z3.fpToFP(RNE, v, F64))
                continue
            m = re.match(r'^fstp st\((\d+)\)$', l)
            if m:
                k = int(m.group(1))
                self.st[k] = self.st[0]
                self.st.pop(0)
                continue
            m = re.match(r'^f(add|sub|mul|div)p st\(1\), st$', l)
            if m:
                a, b = self.st[1], self.st[0]
                r = {'add': z3.fpAdd, 'sub': z3.fpSub, 'mul': z3.fpMul, 'div': z3.fpDiv}[m.group(1)](RNE, a, b)
                self.st[1] = r
                self.st.pop(0)
                continue
            m = re.match(r'^f(subr|divr)p st\(1\), st$', l)
            if m:
                a, b = self.st[0], self.st[1]
                r = {'subr': z3.fpSub, 'divr': z3.fpDiv}[m.group(1)](RNE, a, b)
                self.st[1] = r
                self.st.pop(0)
                continue
            if l in ('fldz', 'fld1'):
                self.st.insert(0, z3.fpPlusZero(F80) if l == 'fldz' else z3.FPVal(1.0, F80))
                continue
            if l == 'fchs':
                self.st[0] = z3.fpNeg(self.st[0])
                continue
            if l == 'fabs':
                self.st[0] = z3.fpAbs(self.st[0])
                continue
            if l == 'fxch' or l == 'fxch st(1)':
                self.st[0], self.st[1] = self.st[1], self.st[0]
                continue
            m = re.match(r'^f(u?)com(i|ip) st, st\((\d+)\)$', l)
            if m:
                a, b = self.st[0], self.st[int(m.group(3))]
                un = z3.Or(z3.fpIsNaN(a), z3.fpIsNaN(b))
                # Intel SDM: ST(0) > src: 000; ST(0) < src: CF=1; equal: ZF=1; unordered: ZF=PF=CF=1
                self.flags = (z3.Or(un, z3.fpEQ(a, b)), un, z3.Or(un, z3.fpLT(a, b)))
                if m.group(2) == 'ip':
                    self.st.pop(0)
                continue
            m = re.match(r'^fcmov(n?)(be|b|e|u) st, st\((\d+)\)$', l)
            if m:
                zf, pf, cf = self.flags
                c = {'be': z3.Or(cf, zf), 'b': cf, 'e': zf, 'u': pf}[m.group(2)]
                if m.group(1):
                    c = z3.Not(c)
                self.st[0] = z3.If(c, self.st[int(m.group(3))], self.st[0])
                continue
            m = re.match(r'^set(n?)(ae|a|be|b|e|z|p) al$', l)
            if m:
                zf, pf, cf = self.flags
                c = {'a': z3.And(z3.Not(cf), z3.Not(zf)), 'ae': z3.Not(cf), 'b': cf, 'be': z3.Or(cf, zf), 'e': zf, 'z': zf, 'p': pf}[m.group(2)]
                if m.group(1):
                    c = z3.Not(c)
                self.regs['al'] = c
                continue
            raise Unsupported('instruction outside the modelled x87 subset: ' + l)
        if self.st:
            # a template must leave the register stack balanced
            raise Unsupported('x87 stack not empty after the template: %d left' % len(self.st))


class F80Model:
    """the operators of rlib_f80 as z3 terms, built from the current source text"""

    def __init__(self, src):
        self.src = src
        self.fns = fn_bodies(src)
        self.macros = macro_instances(src)
        self.encoded = []
        b = [x for x in self.fns.get('$fun', []) if asm_of(x[1])]
        self.bin_tmpl = self.un_tmpl = None
        for params, body, pos in b:
            t = asm_of(body)[0]
            if 'rhs' in params:
                self.bin_tmpl = t
            else:
                self.un_tmpl = t
        self.derived_eq = bool(re.search(r'#\[derive\([^)]*\bPartialEq\b[^)]*\)\]\s*(#\[[^\]]*\]\s*)*pub struct f80', src))

    def body(self, name, want_params=None):
        c = self.fns.get(name, [])
        if want_params is not None:
            c = [x for x in c if want_params(x[0])]
        if len(c) != 1:
            raise Unsupported('cannot locate a unique fn %s in f80/src/lib.rs (%d candidates)' % (name, len(c)))
        return c[0][1]

    # ---- conversions
    def widen(self, x64):
        bodies = [b for p, b, _ in self.fns.get('from', []) if 'f64' in p and 'f80' not in p]
        if len(bodies) != 1:
            raise Unsupported('From<f64> for f80 not found')
        t = asm_of(bodies[0])
        if t is None:
            raise Unsupported('From<f64> for f80 is not an asm! body')
        m = X87({0: ('f64', x64)})
        m.run(t[0])
        self.encoded.append('From<f64> for f80')
        k, v = m.out[1]
        if k != 'f80':
            raise Unsupported('From<f64> stores %s' % k)
        return v

    def narrow(self, x80):
        bodies = [b for p, b, _ in self.fns.get('from', []) if 'f80' in p]
        if len(bodies) != 1:
            raise Unsupported('From<f80> for f64 not found')
        t = asm_of(bodies[0])
        if t is None:
            raise Unsupported('From<f80> for f64 is not an asm! body (pure-Rust conversions are outside the encoded subset)')
        m = X87({0: ('f80', x80)})
        m.run(t[0])
        self.encoded.append('From<f80> for f64')
        k, v = m.out[1]
        if k != 'f64':
            raise Unsupported('From<f80> stores %s' % k)
        return v

    # ---- arithmetic
    def binop(self, fun, a, b):
        if fun not in self.macros:
            return self.arith_glue(fun, a, b)
        kind, asm = self.macros[fun]
        lines = [('"%s"' % asm) if l == '$asm' else l for l in self.bin_tmpl]
        m = X87({0: ('f80', a), 1: ('f80', b)})
        m.run(lines)
        self.encoded.append('%s (asm: %s)' % (fun, asm))
        return m.out[2][1]

    def const_val(self, name):
        m = re.search(r'const %s: f80 = f80\(\[([0-9, ]+)\]\);' % name, self.src)
        if not m:
            raise Unsupported('f80::%s not found' % name)
        bs = [int(x) for x in m.group(1).split(',')]
        sig = int.from_bytes(bytes(bs[:8]), 'little')
        se = bs[8] | (bs[9] << 8)
        sign, exp = se >> 15, se & 0x7fff
        if exp == 0 and sig == 0:
            return z3.fpMinusZero(F80) if sign else z3.fpPlusZero(F80)
        if sig >> 63 != 1:
            raise Unsupported('f80 constant is not normalised')
        return z3.fpFP(z3.BitVecVal(sign, 1), z3.BitVecVal(exp, 15), z3.BitVecVal(sig & ((1 << 63) - 1), 63))

    def arith_glue(self, fun, a, b):
        """operator bodies written in Rust instead of through the asm macros, e.g. `f80::ZERO - self`"""
        c = [x for x in self.fns.get(fun, []) if not asm_of(x[1])]
        if len(c) != 1:
            raise Unsupported('operator %s is neither a macro instance nor a simple expression' % fun)
        body = ' '.join(c[0][1].split())
        m = re.match(r'^(f80::ZERO|f80::ONE|self|rhs) ([-+*/]) (f80::ZERO|f80::ONE|self|rhs)$', body)
        if not m:
            raise Unsupported('operator %s: body outside the supported grammar: %s' % (fun, body))
        def val(t):
            return a if t == 'self' else (b if t == 'rhs' else self.const_val(t.split('::')[1]))
        op = {'+': 'add', '-': 'sub', '*': 'mul', '/': 'div'}[m.group(2)]
        self.encoded.append('%s (glue: %s)' % (fun, body))
        return self.binop(op, val(m.group(1)), val(m.group(3)))

    def unop(self, fun, a):
        if fun not in self.macros:
            return self.arith_glue(fun, a, None)
        kind, asm = self.macros[fun]
        lines = [('"%s"' % asm) if l == '$asm' else l for l in self.un_tmpl]
        m = X87({0: ('f80', a)})
        m.run(lines)
        self.encoded.append('%s (asm: %s)' % (fun, asm))
        return m.out[1][1]

    # ---- boolean methods: asm body or Rust glue expression over self/rhs
    def method(self, name, a, b, depth=0):
        if depth > 6:
            raise Unsupported('recursive glue')
        if name == 'eq' and self.derived_eq:
            self.encoded.append('derived byte-wise PartialEq')
            # identical 80-bit patterns: SMT-LIB `=` (distinguishes +0/-0, identifies NaN with NaN; payloads are not modelled)
            return a == b
        if name == 'ne':
            if 'ne' not in self.fns:
                return z3.Not(self.method('eq', a, b, depth + 1))
        body = self.body(name, lambda p: 'rhs' in p or 'other' in p)
        t = asm_of(body)
        if t:
            m = X87({0: ('f80', a), 1: ('f80', b)})
            m.run(t[0])
            if 'al' not in m.regs:
                raise Unsupported('%s: no setcc result' % name)
            if not re.search(r'&\s*1\)\s*>\s*0|&\s*1\s*\)\s*!=\s*0|& 1 == 1', body):
                raise Unsupported('%s: unexpected post-processing of the flag byte' % name)
            self.encoded.append('%s (asm: %s)' % (name, '; '.join(x for x in m.trace if x.startswith(('fcom', 'fucom', 'set')))))
            return m.regs['al']
        self.encoded.append('%s (glue: %s)' % (name, ' '.join(body.split())))
        return self.expr(' '.join(body.split()), a, b, depth)

    def expr(self, s, a, b, depth):
        s = s.strip()
        s = re.sub(r'//[^\n]*?(?=f64::from|self|rhs|!|\()', '', s) if s.startswith('//') else s
        m = re.match(r'^f64::from\(\*?(self|rhs)\) (==|!=|<=|>=|<|>) f64::from\(\*?(self|rhs)\)$', s)
        if m:
            x = self.narrow(a if m.group(1) == 'self' else b)
            y = self.narrow(a if m.group(3) == 'self' else b)
            op = {'==': z3.fpEQ, '!=': lambda p, q: z3.Not(z3.fpEQ(p, q)), '<': z3.fpLT, '<=': z3.fpLEQ, '>': z3.fpGT, '>=': z3.fpGEQ}[m.group(2)]
            return op(x, y)
        toks = re.findall(r'&&|\|\||!|\(|\)|\*?(?:self|rhs|other)\.\w+\(&?\*?(?:self|rhs|other)\)|\*?(?:self|rhs|other)\s*(?:<=|>=|<|>|==|!=)\s*\*?(?:self|rhs|other)', s)
        if ''.join(toks).replace(' ', '') != s.replace(' ', ''):
            raise Unsupported('glue expression outside the supported grammar: ' + s)
        pos = [0]

        def val(n):
            return a if n == 'self' else b

        def atom():
            t = toks[pos[0]]
            pos[0] += 1
            if t == '!':
                return z3.Not(atom())
            if t == '(':
                r = disj()
                pos[0] += 1
                return r
            m = re.match(r'^\*?(self|rhs|other)\.(\w+)\(&?\*?(self|rhs|other)\)$', t)
            if m:
                return self.method(m.group(2), val(m.group(1)), val(m.group(3)), depth + 1)
            m = re.match(r'^\*?(self|rhs|other)\s*(<=|>=|<|>|==|!=)\s*\*?(self|rhs|other)$', t)
            if m:
                name = {'<': 'lt', '>': 'gt', '<=': 'le', '>=': 'ge', '==': 'eq', '!=': 'ne'}[m.group(2)]
                return self.method(name, val(m.group(1)), val(m.group(3)), depth + 1)
            raise Unsupported('glue token ' + t)

        def conj():
            r = atom()
            while pos[0] < len(toks) and toks[pos[0]] == '&&':
                pos[0] += 1
                r = z3.And(r, atom())
            return r

        def disj():
            r = conj()
            while pos[0] < len(toks) and toks[pos[0]] == '||':
                pos[0] += 1
                r = z3.Or(r, conj())
            return r
        r = disj()
        if pos[0] != len(toks):
            raise Unsupported('glue expression: trailing tokens in ' + s)
        return r

    def partial_cmp(self, a, b):
        """-> dict {None|'Less'|'Equal'|'Greater': z3 condition}"""
        body = ' '.join(self.body('partial_cmp').split())
        m = re.search(r'match \((.*?), (.*?)\) \{(.*)\}', body)
        if not m:
            raise Unsupported('partial_cmp: unexpected shape')
        e1 = self.expr(m.group(1), a, b, 0)
        e2 = self.expr(m.group(2), a, b, 0)
        res = {None: z3.BoolVal(False), 'Less': z3.BoolVal(False), 'Equal': z3.BoolVal(False), 'Greater': z3.BoolVal(False)}
        arms = re.findall(r'\((true|false), (true|false)\) => (None|Some\(Ordering::(\w+)\))', m.group(3))
        if len(arms) != 4:
            raise Unsupported('partial_cmp: expected four arms')
        for x, y, whole, ordn in arms:
            c = z3.And(e1 if x == 'true' else z3.Not(e1), e2 if y == 'true' else z3.Not(e2))
            key = None if whole == 'None' else ordn
            res[key] = z3.Or(res[key], c)
        self.encoded.append('partial_cmp (glue)')
        return res

    def minmax(self, name, a, b):
        body = self.body(name)
        t = asm_of(body)
        if not t:
            raise Unsupported(name + ': not an asm body')
        m = X87({0: ('f80', a), 1: ('f80', b)})
        m.run(t[0])
        self.encoded.append('%s (asm: %s)' % (name, '; '.join(x for x in m.trace if x.startswith(('fcom', 'fucom', 'fcmov')))))
        return m.out[2][1]

    def abs(self, a):
        body = ' '.join(self.body('abs').split())
        m = re.match(r'^if self < f80::from\(0\.0?\) \{ -self \} else \{ self \}$', body)
        if not m:
            t = asm_of(self.body('abs'))
            if t:
                mm = X87({0: ('f80', a)})
                mm.run(t[0])
                self.encoded.append('abs (asm)')
                return mm.out[1][1]
            raise Unsupported('abs: unexpected shape: ' + body)
        zero = self.widen(z3.FPVal(0.0, F64))
        self.encoded.append('abs (glue)')
        return z3.If(self.method('lt', a, zero), self.unop('neg', a), a)
