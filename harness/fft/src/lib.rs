#![allow(dead_code, unused_assignments)]
//! C04 (exact-arithmetic part) — the real generic FFT code instantiated at an EXACT `Float`: the prime field GF(7)
//! (7 = 3 mod 4, so GF(7)[i] is a field whose norm-1 group is cyclic of order 8 and Complex<Fp> has genuine 8th roots
//! of unity with conj = inverse). Values carry an annotation (integer k, 1/k, pi*k/m) that survives exactly the
//! operations update_n uses to form its angles, so cos/sin return the coordinates of the matching root of unity.
//! Exact "float": GF(P) value + optional exact angle annotation (multiple of pi as rational num/den)
use rlib_num_traits::{Float, ZeroOne};
use std::ops::*;

pub const P: u32 = 7; pub const PB: u32 = 3; pub const ORD: u32 = P + 1; // p = 3 mod 4, unit circle of GF(p^2) has order p+1 = 32

#[derive(Clone, Copy, Debug, Default)]
pub struct Fp { pub v: u32, pub kind: u8, pub num: u32, pub den: u32 } // kind: 0 = plain, 1 = integer num, 2 = rational num/den, 3 = pi*num/den

fn red(x: u32) -> u32 { let y = (x & P) + (x >> PB); let z = (y & P) + (y >> PB); let w = (z & P) + (z >> PB); if w >= P { w - P } else { w } }
fn inv_mod(a: u32) -> u32 { // a^(P-2)
    let mut r = 1u32; let mut b = a % P; let mut e = P - 2;
    while e > 0 { if e & 1 == 1 { r = r * b % P; } b = b * b % P; e >>= 1; }
    r
}
impl Fp { pub const fn plain(v: u32) -> Fp { Fp { v, kind: 0, num: 0, den: 1 } } }
impl PartialEq for Fp { fn eq(&self, o: &Fp) -> bool { self.v == o.v } }
impl PartialOrd for Fp { fn partial_cmp(&self, o: &Fp) -> Option<std::cmp::Ordering> { self.v.partial_cmp(&o.v) } }
impl std::fmt::Display for Fp { fn fmt(&self, _f: &mut std::fmt::Formatter) -> std::fmt::Result { Ok(()) } }
impl Add for Fp { type Output = Fp; fn add(self, o: Fp) -> Fp { Fp::plain({ let t = self.v + o.v; if t >= P { t - P } else { t } }) } }
impl Sub for Fp { type Output = Fp; fn sub(self, o: Fp) -> Fp { Fp::plain({ let t = self.v + P - o.v; if t >= P { t - P } else { t } }) } }
impl Neg for Fp { type Output = Fp; fn neg(self) -> Fp { Fp::plain(if self.v == 0 { 0 } else { P - self.v }) } }
impl Mul for Fp { type Output = Fp; fn mul(self, o: Fp) -> Fp {
    let v = red(self.v * o.v);
    // angle bookkeeping (only on concrete table-building paths)
    match (self.kind, o.kind) {
        (3, 1) => Fp { v, kind: 3, num: self.num * o.num, den: self.den },
        (3, 2) => Fp { v, kind: 3, num: self.num * o.num, den: self.den * o.den },
        _ => Fp::plain(v),
    }
} }
impl Div for Fp { type Output = Fp; fn div(self, o: Fp) -> Fp {
    let v = red(self.v * inv_mod(o.v));
    if self.kind == 1 && o.kind == 1 { Fp { v, kind: 2, num: self.num, den: o.num } } else { Fp::plain(v) }
} }
impl AddAssign for Fp { fn add_assign(&mut self, o: Fp) { *self = *self + o; } }
impl SubAssign for Fp { fn sub_assign(&mut self, o: Fp) { *self = *self - o; } }
impl MulAssign for Fp { fn mul_assign(&mut self, o: Fp) { *self = *self * o; } }
impl DivAssign for Fp { fn div_assign(&mut self, o: Fp) { *self = *self / o; } }
impl ZeroOne for Fp { const ZERO: Fp = Fp { v: 0, kind: 1, num: 0, den: 1 }; const ONE: Fp = Fp { v: 1, kind: 1, num: 1, den: 1 }; }

// generator of the norm-1 group of GF(31^2): find g = (x, y), x^2+y^2 = 1, of order 32
const fn cmul(a: (u32, u32), b: (u32, u32)) -> (u32, u32) { ((a.0 * b.0 + P * P - a.1 * b.1) % P, (a.0 * b.1 + a.1 * b.0) % P) }
const fn cpow(a: (u32, u32), mut e: u32) -> (u32, u32) { let mut r = (1, 0); let mut b = a; while e > 0 { if e & 1 == 1 { r = cmul(r, b); } b = cmul(b, b); e >>= 1; } r }
const fn find_gen() -> (u32, u32) {
    let mut x = 0; 
    while x < P { let mut y = 0; while y < P {
        if (x * x + y * y) % P == 1 { let h = cpow((x, y), ORD / 4); if h.0 == 0 && h.1 == 1 { return (x, y); } }
        y += 1; } x += 1; }
    (0, 0)
}
pub const G: (u32, u32) = find_gen();

impl Fp {
    fn angle_root(&self) -> (u32, u32) {
        // self = pi * num / den, den power of two <= 16  ->  G32^(32 * num / (2 * den))
        assert!(self.kind == 3 && self.den != 0 && (ORD / 2) % self.den == 0);
        cpow(G, ((ORD / 2) / self.den) * self.num % ORD)
    }
}
impl Float for Fp {
    const PI: Fp = Fp { v: 1, kind: 3, num: 1, den: 1 };
    fn sin(&self) -> Fp { Fp::plain(self.angle_root().1) }
    fn cos(&self) -> Fp { Fp::plain(self.angle_root().0) }
    fn sqrt(&self) -> Fp { panic!("unsupported") }
    fn abs(&self) -> Fp { panic!("unsupported") }
    fn round(&self) -> Fp { *self }
    fn from_usize(x: usize) -> Fp { Fp { v: (x as u32) % P, kind: 1, num: x as u32, den: 1 } }
    fn from_i32(x: i32) -> Fp { Fp::plain(x.rem_euclid(P as i32) as u32) }
    fn to_i64(&self) -> i64 { self.v as i64 }
}

pub fn conv_mod(a: &[i32], b: &[i32], out: &mut [i64]) {
    let mut i = 0;
    while i < a.len() { let mut j = 0; while j < b.len() {
        out[i + j] = (out[i + j] + (a[i] as i64) * (b[j] as i64)) % (P as i64); j += 1; } i += 1; }
}

#[test]
fn native_sanity() {
    let mut f = rlib_fft::FFT::<Fp>::new();
    let a = [1, 2, 3, 6, 5];
    let b = [5, 6, 0, 2];
    let r = f.multiply(&a, &b);
    let mut e = vec![0i64; 8];
    conv_mod(&a, &b, &mut e);
    assert_eq!(r, e);
    let r2 = f.multiply(&[3, 4], &[5]);
    assert_eq!(r2, vec![1, 6]);
}

#[cfg(kani)]
mod proofs {
    use super::*;
    use rlib_fft::{Complex, FFT};

    fn any_coef<const N: usize>() -> [i32; N] {
        let a: [i32; N] = kani::any();
        let mut i = 0;
        while i < N {
            kani::assume(a[i] >= 0 && a[i] < P as i32);
            i += 1;
        }
        a
    }
    fn any_signed<const N: usize>() -> [i32; N] {
        let a: [i32; N] = kani::any();
        let mut i = 0;
        while i < N {
            kani::assume(a[i] >= -(P as i32) && a[i] < P as i32);
            i += 1;
        }
        a
    }
    fn conv_signed(a: &[i32], b: &[i32], out: &mut [i64]) {
        let mut i = 0;
        while i < a.len() {
            let mut j = 0;
            while j < b.len() {
                out[i + j] = (out[i + j] + ((a[i] as i64) * (b[j] as i64)).rem_euclid(P as i64)) % (P as i64);
                j += 1;
            }
            i += 1;
        }
    }

    /// multiply = convolution mod p, length |a|+|b|-1, for fully symbolic operands (transform sizes 2 and 4)
    fn mul_small<const A: usize, const B: usize, const R: usize>() {
        let a = any_coef::<A>();
        let b = any_coef::<B>();
        let mut f = FFT::<Fp>::new();
        let r = f.multiply(&a, &b);
        let mut e = [0i64; R];
        conv_mod(&a, &b, &mut e);
        assert!(r.len() == R, "result length |a|+|b|-1");
        let mut i = 0;
        while i < R {
            assert!(r[i] == e[i], "multiply = convolution (exact arithmetic)");
            i += 1;
        }
        kani::cover!(a[A - 1] == 6 && b[B - 1] == 6);
        core::mem::forget(f);
        core::mem::forget(r);
    }
    #[kani::proof]
    #[kani::unwind(10)]
    fn c04_mul_1x1() { mul_small::<1, 1, 1>(); }
    #[kani::proof]
    #[kani::unwind(10)]
    fn c04_mul_1x2() { mul_small::<1, 2, 2>(); }
    #[kani::proof]
    #[kani::unwind(10)]
    fn c04_mul_2x2() { mul_small::<2, 2, 3>(); }
    #[kani::proof]
    #[kani::unwind(10)]
    fn c04_mul_3x2() { mul_small::<3, 2, 4>(); }
    #[kani::proof]
    #[kani::unwind(10)]
    fn c04_mul_2x3() { mul_small::<2, 3, 4>(); }
    #[kani::proof]
    #[kani::unwind(10)]
    fn c04_mul_4x1() { mul_small::<4, 1, 4>(); }

    /// negative coefficients (reduced by from_i32)
    #[kani::proof]
    #[kani::unwind(10)]
    fn c04_mul_signed_2x2() {
        let a = any_signed::<2>();
        let b = any_signed::<2>();
        let mut f = FFT::<Fp>::new();
        let r = f.multiply(&a, &b);
        let mut e = [0i64; 3];
        conv_signed(&a, &b, &mut e);
        assert!(r.len() == 3);
        let mut i = 0;
        while i < 3 {
            assert!(r[i] == e[i], "multiply with negative coefficients");
            i += 1;
        }
        kani::cover!(a[0] < 0 && b[1] < 0);
        core::mem::forget(f);
        core::mem::forget(r);
    }

    /// empty inputs
    #[kani::proof]
    #[kani::unwind(10)]
    fn c04_empty() {
        let a = any_coef::<2>();
        let mut f = FFT::<Fp>::new();
        let e: [i32; 0] = [];
        assert!(f.multiply(&a, &e).is_empty() && f.multiply(&e, &a).is_empty() && f.multiply(&e, &e).is_empty());
        let mut dst = [5i64, 6];
        f.multiply_into(&e, &a, &mut dst);
        assert!(dst[0] == 5 && dst[1] == 6, "multiply_into with an empty operand leaves the destination unchanged");
        core::mem::forget(f);
    }

    /// transform size 8: one operand symbolic, the other from an enumerated concrete set; history 2 -> 8 (into a symbolic
    /// destination) -> 2 on ONE object, compared with fresh-object results (stride indexing into the grown tables)
    fn hist8(b: [i32; 5]) {
        let a = any_coef::<4>();
        let a2 = any_coef::<1>();
        let b2 = any_coef::<2>();
        let mut f = FFT::<Fp>::new();
        let r0 = f.multiply(&a2, &b2);
        let mut e0 = [0i64; 2];
        conv_mod(&a2, &b2, &mut e0);
        assert!(r0.len() == 2 && r0[0] == e0[0] && r0[1] == e0[1], "size-2 call on a fresh object");
        let mut dst = [0i64; 8];
        let seed: i64 = kani::any();
        kani::assume(seed >= -1000 && seed < 1000);
        dst[3] = seed;
        f.multiply_into(&a, &b, &mut dst);
        let mut e = [0i64; 8];
        conv_mod(&a, &b, &mut e);
        let mut i = 0;
        while i < 8 {
            assert!(dst[i] == e[i] + if i == 3 { seed } else { 0 }, "multiply_into ADDS the convolution to the destination (size 8 after size 2)");
            i += 1;
        }
        let r1 = f.multiply(&a2, &b2);
        assert!(r1.len() == 2 && r1[0] == e0[0] && r1[1] == e0[1], "size-2 call after the object has grown to 8 = fresh result");
        core::mem::forget(f);
        core::mem::forget(r0);
        core::mem::forget(r1);
    }
    #[kani::proof]
    #[kani::unwind(10)]
    fn c04_hist8_dense() { hist8([1, 0, 6, 3, 2]); }
    #[kani::proof]
    #[kani::unwind(10)]
    fn c04_hist8_unit() { hist8([0, 0, 0, 0, 1]); }
    #[kani::proof]
    #[kani::unwind(10)]
    fn c04_hist8_ones() { hist8([1, 1, 1, 1, 1]); }
    #[kani::proof]
    #[kani::unwind(10)]
    fn c04_hist8_alt() { hist8([1, 6, 1, 6, 1]); }

    /// shrinking history: 8 first, then 4 (3x2) fully symbolic on the same object
    #[kani::proof]
    #[kani::unwind(10)]
    fn c04_hist_shrink() {
        let mut f = FFT::<Fp>::new();
        let big = f.multiply(&[1, 2, 3, 4], &[6, 5, 4, 3, 2]);
        let mut eb = [0i64; 8];
        conv_mod(&[1, 2, 3, 4], &[6, 5, 4, 3, 2], &mut eb);
        let mut i = 0;
        while i < 8 {
            assert!(big[i] == eb[i]);
            i += 1;
        }
        let a = any_coef::<3>();
        let b = any_coef::<2>();
        let r = f.multiply(&a, &b);
        let mut e = [0i64; 4];
        conv_mod(&a, &b, &mut e);
        assert!(r.len() == 4);
        let mut i = 0;
        while i < 4 {
            assert!(r[i] == e[i], "size-4 call after the object has grown to 8");
            i += 1;
        }
        core::mem::forget(f);
        core::mem::forget(big);
        core::mem::forget(r);
    }

    /// forward transform, pointwise product, inverse transform = multiply
    #[kani::proof]
    #[kani::unwind(10)]
    fn c04_fft_pointwise_inv() {
        let a = any_coef::<2>();
        let b = any_coef::<2>();
        let mut f = FFT::<Fp>::new();
        let fa = f.fft(&a, 4);
        let fb = f.fft(&b, 4);
        assert!(fa.len() == 4 && fb.len() == 4);
        let mut prod = [Complex::<Fp>::new(Fp::plain(0), Fp::plain(0)); 4];
        let mut i = 0;
        while i < 4 {
            prod[i] = fa[i] * fb[i];
            i += 1;
        }
        let c = f.fft_inv(&prod);
        let m = f.multiply(&a, &b);
        assert!(c.len() == 4 && m.len() == 3);
        let mut i = 0;
        while i < 3 {
            assert!(c[i] == m[i], "fft -> pointwise product -> fft_inv = multiply");
            i += 1;
        }
        assert!(c[3] == 0);
        core::mem::forget(f);
        core::mem::forget(fa);
        core::mem::forget(fb);
        core::mem::forget(c);
        core::mem::forget(m);
    }

    /// fft_into / fft_inv_into accumulate onto their destination
    #[kani::proof]
    #[kani::unwind(10)]
    fn c04_into_accumulates() {
        let a = any_coef::<2>();
        let mut f = FFT::<Fp>::new();
        let fa = f.fft(&a, 2);
        let mut acc = [fa[0], fa[1]];
        f.fft_into(&a, 2, &mut acc);
        assert!(acc[0] == fa[0] + fa[0] && acc[1] == fa[1] + fa[1], "fft_into adds the transform to the destination");
        let mut dst = [3i64, 4];
        f.fft_inv_into(&[fa[0], fa[1]], &mut dst);
        assert!(dst[0] == 3 + a[0] as i64 && dst[1] == 4 + a[1] as i64, "fft_inv_into adds the inverse transform to the destination");
        core::mem::forget(f);
        core::mem::forget(fa);
    }

    #[kani::proof]
    #[kani::unwind(10)]
    fn c04_twin_false() {
        let a = any_coef::<2>();
        let b = any_coef::<2>();
        let mut f = FFT::<Fp>::new();
        let r = f.multiply(&a, &b);
        assert!(r[1] != 5 || a[0] == 0, "twin: deliberately false");
        core::mem::forget(f);
        core::mem::forget(r);
    }
}
