#![allow(dead_code, unused_assignments)]
//! C04 (exact-arithmetic part) — the real generic FFT code instantiated at an EXACT `Float`: the prime field GF(7)
//! (7 = 3 mod 4, so GF(7)[i] is a field whose norm-1 group is cyclic of order 8 and Complex<Fp> has genuine 8th roots
//! of unity with conj = inverse). Values carry an annotation (integer k, 1/k, pi*k/m) that survives exactly the
//! operations update_n uses to form its angles, so cos/sin return the coordinates of the matching root of unity.
//! Exact "float": GF(P) value + optional exact angle annotation (multiple of pi as rational num/den)
use rlib_num_traits::{Float, ZeroOne};
use std::ops::*;

pub const P: u32 = 7; pub const PB: u32 = 3; pub const ORD: u32 = P + 1; // p = 3 mod 4, unit circle of GF(p^2) has order p+1 = 32

#[derive(Clone, Copy, Debug, Default)]
pub struct Fp { pub v: u32, pub kind: u8, pub num: u32, pub den: u32 } // kind: 0 = plain, 1 = integer num, 2 = rational num/den, 3 = pi*num/den

fn red(x: u32) -> u32 { let y = (x & P) + (x >> PB); let z = (y & P) + (y >> PB); let w = (z & P) + (z >> PB); if w >= P { w - P } else { w } }
fn inv_mod(a: u32) -> u32 { // a^(P-2)
    let mut r = 1u32; let mut b = a % P; let mut e = P - 2;
    while e > 0 { if e & 1 == 1 { r = r * b % P; } b = b * b % P; e >>= 1; }
    r
}
impl Fp { pub const fn plain(v: u32) -> Fp { Fp { v, kind: 0, num: 0, den: 1 } } }
impl PartialEq for Fp { fn eq(&self, o: &Fp) -> bool { self.v == o.v } }
impl PartialOrd for Fp { fn partial_cmp(&self, o: &Fp) -> Option<std::cmp::Ordering> { self.v.partial_cmp(&o.v) } }
impl std::fmt::Display for Fp { fn fmt(&self, _f: &mut std::fmt::Formatter) -> std::fmt::Result { Ok(()) } }
impl Add for Fp { type Output = Fp; fn add(self, o: Fp) -> Fp { Fp::plain({ let t = self.v + o.v; if t >= P { t - P } else { t } }) } }
impl Sub for Fp { type Output = Fp; fn sub(self, o: Fp) -> Fp { Fp::plain({ let t = self.v + P - o.v; if t >= P { t - P } else { t } }) } }
impl Neg for Fp { type Output = Fp; fn neg(self) -> Fp { Fp::plain(if self.v == 0 { 0 } else { P - self.v }) } }
impl Mul for Fp { type Output = Fp; fn mul(self, o: Fp) -> Fp {
    let v = red(self.v * o.v);
    // angle bookkeeping (only on concrete table-building paths)
    match (self.kind, o.kind) {
        (3, 1) => Fp { v, kind: 3, num: self.num * o.num, den: self.den },
        (3, 2) => Fp { v, kind: 3, num: self.num * o.num, den: self.den * o.den },
        _ => Fp::plain(v),
    }
} }
impl Div for Fp { type Output = Fp; fn div(self, o: Fp) -> Fp {
    let v = red(self.v * inv_mod(o.v));
    if self.kind == 1 && o.kind == 1 { Fp { v, kind: 2, num: self.num, den: o.num } } else { Fp::plain(v) }
} }
impl AddAssign for Fp { fn add_assign(&mut self, o: Fp) { *self = *self + o; } }
impl SubAssign for Fp { fn sub_assign(&mut self, o: Fp) { *self = *self - o; } }
impl MulAssign for Fp { fn mul_assign(&mut self, o: Fp) { *self = *self * o; } }
impl DivAssign for Fp { fn div_assign(&mut self, o: Fp) { *self = *self / o; } }
impl ZeroOne for Fp { const ZERO: Fp = Fp { v: 0, kind: 1, num: 0, den: 1 }; const ONE: Fp = Fp { v: 1, kind: 1, num: 1, den: 1 }; }

// generator of the norm-1 group of GF(31^2): find g = (x, y), x^2+y^2 = 1, of order 32
const fn cmul(a: (u32, u32), b: (u32, u32)) -> (u32, u32) { ((a.0 * b.0 + P * P - a.1 * b.1) % P, (a.0 * b.1 + a.1 * b.0) % P) }
const fn cpow(a: (u32, u32), mut e: u32) -> (u32, u32) { let mut r = (1, 0); let mut b = a; while e > 0 { if e & 1 == 1 { r = cmul(r, b); } b = cmul(b, b); e >>= 1; } r }
const fn find_gen() -> (u32, u32) {
    let mut x = 0; 
    while x < P { let mut y = 0; while y < P {
        if (x * x + y * y) % P == 1 { let h = cpow((x, y), ORD / 4); if h.0 == 0 && h.1 == 1 { return (x, y); } }
        y += 1; } x += 1; }
    (0, 0)
}
pub const G: (u32, u32) = find_gen();

impl Fp {
    fn angle_root(&self) -> (u32, u32) {
        // self = pi * num / den, den power of two <= 16  ->  G32^(32 * num / (2 * den))
        assert!(self.kind == 3 && self.den != 0 && (ORD / 2) % self.den == 0);
        cpow(G, ((ORD / 2) / self.den) * self.num % ORD)
    }
}
impl Float for Fp {
    const PI: Fp = Fp { v: 1, kind: 3, num: 1, den: 1 };
    fn sin(&self) -> Fp { Fp::plain(self.angle_root().1) }
    fn cos(&self) -> Fp { Fp::plain(self.angle_root().0) }
    fn sqrt(&self) -> Fp { panic!("unsupported") }
    fn abs(&self) -> Fp { panic!("unsupported") }
    fn round(&self) -> Fp { *self }
    fn from_usize(x: usize) -> Fp { Fp { v: (x as u32) % P, kind: 1, num: x as u32, den: 1 } }
    fn from_i32(x: i32) -> Fp { Fp::plain(x.rem_euclid(P as i32) as u32) }
    fn to_i64(&self) -> i64 { self.v as i64 }
}

pub fn conv_mod(a: &[i32], b: &[i32], out: &mut [i64]) {
    let mut i = 0;
    while i < a.len() { let mut j = 0; while j < b.len() {
        out[i + j] = (out[i + j] + (a[i] as i64) * (b[j] as i64)) % (P as i64); j += 1; } i += 1; }
}

#[test]
fn native_sanity() {
    let mut f = rlib_fft::FFT::<Fp>::new();
    let a = [1, 2, 3, 6, 5];
    let b = [5, 6, 0, 2];
    let r = f.multiply(&a, &b);
    let mut e = vec![0i64; 8];
    conv_mod(&a, &b, &mut e);
    assert_eq!(r, e);
    let r2 = f.multiply(&[3, 4], &[5]);
    assert_eq!(r2, vec![1, 6]);
}

#[cfg(kani)]
mod proofs;
