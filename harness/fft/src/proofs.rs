use crate::*;
use rlib_fft::{Complex, FFT};

fn any_coef<const N: usize>() -> [i32; N] {
    let a: [i32; N] = kani::any();
    let mut i = 0;
    while i < N {
        kani::assume(a[i] >= 0 && a[i] < P as i32);
        i += 1;
    }
    a
}
fn any_signed<const N: usize>() -> [i32; N] {
    let a: [i32; N] = kani::any();
    let mut i = 0;
    while i < N {
        kani::assume(a[i] >= -(P as i32) && a[i] < P as i32);
        i += 1;
    }
    a
}
fn conv_signed(a: &[i32], b: &[i32], out: &mut [i64]) {
    let mut i = 0;
    while i < a.len() {
        let mut j = 0;
        while j < b.len() {
            out[i + j] = (out[i + j] + ((a[i] as i64) * (b[j] as i64)).rem_euclid(P as i64)) % (P as i64);
            j += 1;
        }
        i += 1;
    }
}

/// multiply = convolution mod p, length |a|+|b|-1, for fully symbolic operands (transform sizes 2 and 4)
fn mul_small<const A: usize, const B: usize, const R: usize>() {
    let a = any_coef::<A>();
    let b = any_coef::<B>();
    let mut f = FFT::<Fp>::new();
    let r = f.multiply(&a, &b);
    let mut e = [0i64; R];
    conv_mod(&a, &b, &mut e);
    assert!(r.len() == R, "result length |a|+|b|-1");
    let mut i = 0;
    while i < R {
        assert!(r[i] == e[i], "multiply = convolution (exact arithmetic)");
        i += 1;
    }
    kani::cover!(a[A - 1] == 6 && b[B - 1] == 6);
    core::mem::forget(f);
    core::mem::forget(r);
}
#[kani::proof]
#[kani::unwind(10)]
fn c04_mul_1x1() { mul_small::<1, 1, 1>(); }
#[kani::proof]
#[kani::unwind(10)]
fn c04_mul_1x2() { mul_small::<1, 2, 2>(); }
#[kani::proof]
#[kani::unwind(10)]
fn c04_mul_2x2() { mul_small::<2, 2, 3>(); }
#[kani::proof]
#[kani::unwind(10)]
fn c04_mul_3x2() { mul_small::<3, 2, 4>(); }
#[kani::proof]
#[kani::unwind(10)]
fn c04_mul_2x3() { mul_small::<2, 3, 4>(); }
#[kani::proof]
#[kani::unwind(10)]
fn c04_mul_4x1() { mul_small::<4, 1, 4>(); }

/// negative coefficients (reduced by from_i32)
#[kani::proof]
#[kani::unwind(10)]
fn c04_mul_signed_2x2() {
    let a = any_signed::<2>();
    let b = any_signed::<2>();
    let mut f = FFT::<Fp>::new();
    let r = f.multiply(&a, &b);
    let mut e = [0i64; 3];
    conv_signed(&a, &b, &mut e);
    assert!(r.len() == 3);
    let mut i = 0;
    while i < 3 {
        assert!(r[i] == e[i], "multiply with negative coefficients");
        i += 1;
    }
    kani::cover!(a[0] < 0 && b[1] < 0);
    core::mem::forget(f);
    core::mem::forget(r);
}

/// empty inputs
#[kani::proof]
#[kani::unwind(10)]
fn c04_empty() {
    let a = any_coef::<2>();
    let mut f = FFT::<Fp>::new();
    let e: [i32; 0] = [];
    assert!(f.multiply(&a, &e).is_empty() && f.multiply(&e, &a).is_empty() && f.multiply(&e, &e).is_empty());
    let mut dst = [5i64, 6];
    f.multiply_into(&e, &a, &mut dst);
    assert!(dst[0] == 5 && dst[1] == 6, "multiply_into with an empty operand leaves the destination unchanged");
    core::mem::forget(f);
}

/// transform size 8: one operand symbolic, the other from an enumerated concrete set; history 2 -> 8 (into a symbolic
/// destination) -> 2 on ONE object, compared with fresh-object results (stride indexing into the grown tables)
fn hist8(b: [i32; 5]) {
    let a = any_coef::<4>();
    let a2 = any_coef::<1>();
    let b2 = any_coef::<2>();
    let mut f = FFT::<Fp>::new();
    let r0 = f.multiply(&a2, &b2);
    let mut e0 = [0i64; 2];
    conv_mod(&a2, &b2, &mut e0);
    assert!(r0.len() == 2 && r0[0] == e0[0] && r0[1] == e0[1], "size-2 call on a fresh object");
    let mut dst = [0i64; 8];
    let seed: i64 = kani::any();
    kani::assume(seed >= -1000 && seed < 1000);
    dst[3] = seed;
    f.multiply_into(&a, &b, &mut dst);
    let mut e = [0i64; 8];
    conv_mod(&a, &b, &mut e);
    let mut i = 0;
    while i < 8 {
        assert!(dst[i] == e[i] + if i == 3 { seed } else { 0 }, "multiply_into ADDS the convolution to the destination (size 8 after size 2)");
        i += 1;
    }
    let r1 = f.multiply(&a2, &b2);
    assert!(r1.len() == 2 && r1[0] == e0[0] && r1[1] == e0[1], "size-2 call after the object has grown to 8 = fresh result");
    core::mem::forget(f);
    core::mem::forget(r0);
    core::mem::forget(r1);
}
#[kani::proof]
#[kani::unwind(10)]
fn c04_hist8_dense() { hist8([1, 0, 6, 3, 2]); }
#[kani::proof]
#[kani::unwind(10)]
fn c04_hist8_unit() { hist8([0, 0, 0, 0, 1]); }
#[kani::proof]
#[kani::unwind(10)]
fn c04_hist8_ones() { hist8([1, 1, 1, 1, 1]); }
#[kani::proof]
#[kani::unwind(10)]
fn c04_hist8_alt() { hist8([1, 6, 1, 6, 1]); }

/// shrinking history: 8 first, then 4 (3x2) fully symbolic on the same object
#[kani::proof]
#[kani::unwind(10)]
fn c04_hist_shrink() {
    let mut f = FFT::<Fp>::new();
    let big = f.multiply(&[1, 2, 3, 4], &[6, 5, 4, 3, 2]);
    let mut eb = [0i64; 8];
    conv_mod(&[1, 2, 3, 4], &[6, 5, 4, 3, 2], &mut eb);
    let mut i = 0;
    while i < 8 {
        assert!(big[i] == eb[i]);
        i += 1;
    }
    let a = any_coef::<3>();
    let b = any_coef::<2>();
    let r = f.multiply(&a, &b);
    let mut e = [0i64; 4];
    conv_mod(&a, &b, &mut e);
    assert!(r.len() == 4);
    let mut i = 0;
    while i < 4 {
        assert!(r[i] == e[i], "size-4 call after the object has grown to 8");
        i += 1;
    }
    core::mem::forget(f);
    core::mem::forget(big);
    core::mem::forget(r);
}

/// forward transform, pointwise product, inverse transform = multiply
#[kani::proof]
#[kani::unwind(10)]
fn c04_fft_pointwise_inv() {
    let a = any_coef::<2>();
    let b = any_coef::<2>();
    let mut f = FFT::<Fp>::new();
    let fa = f.fft(&a, 4);
    let fb = f.fft(&b, 4);
    assert!(fa.len() == 4 && fb.len() == 4);
    let mut prod = [Complex::<Fp>::new(Fp::plain(0), Fp::plain(0)); 4];
    let mut i = 0;
    while i < 4 {
        prod[i] = fa[i] * fb[i];
        i += 1;
    }
    let c = f.fft_inv(&prod);
    let m = f.multiply(&a, &b);
    assert!(c.len() == 4 && m.len() == 3);
    let mut i = 0;
    while i < 3 {
        assert!(c[i] == m[i], "fft -> pointwise product -> fft_inv = multiply");
        i += 1;
    }
    assert!(c[3] == 0);
    core::mem::forget(f);
    core::mem::forget(fa);
    core::mem::forget(fb);
    core::mem::forget(c);
    core::mem::forget(m);
}

/// the inverse transform does not depend on what the object computed earlier: a FRESH object inverts a size-8 spectrum
/// (its tables have only been grown to 4 by new()) exactly like the object that produced it
fn inv_on(fresh: bool) {
    let a = any_coef::<3>();
    let mut f1 = FFT::<Fp>::new();
    let fa = f1.fft(&a, 8);
    assert!(fa.len() == 8);
    let spec = [fa[0], fa[1], fa[2], fa[3], fa[4], fa[5], fa[6], fa[7]];
    let mut f2 = FFT::<Fp>::new();
    let c = if fresh { f2.fft_inv(&spec) } else { f1.fft_inv(&spec) };
    assert!(c.len() == 8);
    let mut i = 0;
    while i < 8 {
        assert!(c[i] == if i < 3 { a[i] as i64 } else { 0 }, "fft_inv(fft(a)) = a, whatever object performs the inverse");
        i += 1;
    }
    core::mem::forget(f1);
    core::mem::forget(f2);
    core::mem::forget(fa);
    core::mem::forget(c);
}
#[kani::proof]
#[kani::unwind(10)]
fn c04_inv_same_object() { inv_on(false); }
#[kani::proof]
#[kani::unwind(10)]
fn c04_inv_fresh_object() { inv_on(true); }

/// fft_into / fft_inv_into accumulate onto their destination
#[kani::proof]
#[kani::unwind(10)]
fn c04_into_accumulates() {
    let a = any_coef::<2>();
    let mut f = FFT::<Fp>::new();
    let fa = f.fft(&a, 2);
    let mut acc = [fa[0], fa[1]];
    f.fft_into(&a, 2, &mut acc);
    assert!(acc[0] == fa[0] + fa[0] && acc[1] == fa[1] + fa[1], "fft_into adds the transform to the destination");
    let mut dst = [3i64, 4];
    f.fft_inv_into(&[fa[0], fa[1]], &mut dst);
    assert!(dst[0] == 3 + a[0] as i64 && dst[1] == 4 + a[1] as i64, "fft_inv_into adds the inverse transform to the destination");
    // one-point spectrum (two length-1 operands): still accumulates
    let one = f.fft(&[a[0]], 1);
    let mut d1 = [9i64];
    f.fft_inv_into(&[one[0]], &mut d1);
    assert!(d1[0] == 9 + a[0] as i64, "fft_inv_into accumulates for a 1-point spectrum as well");
    let mut d2 = [7i64];
    f.multiply_into(&[a[0]], &[a[1]], &mut d2);
    assert!(d2[0] == 7 + ((a[0] * a[1]) % 7) as i64, "multiply_into of two length-1 operands accumulates");
    core::mem::forget(one);
    core::mem::forget(f);
    core::mem::forget(fa);
}

#[kani::proof]
#[kani::unwind(10)]
fn c04_twin_false() {
    let a = any_coef::<2>();
    let b = any_coef::<2>();
    let mut f = FFT::<Fp>::new();
    let r = f.multiply(&a, &b);
    assert!(r[1] != 5 || a[0] == 0, "twin: deliberately false");
    core::mem::forget(f);
    core::mem::forget(r);
}
