//! native validation of the exact-float model against the real crate
use vh_fft::*;
#[test]
fn model_reproduces_convolution() {
    let mut f = rlib_fft::FFT::<Fp>::new();
    for (a, b) in [(vec![1, 2, 3, 6, 5], vec![5, 6, 0, 2]), (vec![3, 4], vec![5]), (vec![6, 6, 6, 6], vec![6, 6, 6, 6, 6]), (vec![1], vec![1])] {
        let r = f.multiply(&a, &b);
        let mut e = vec![0i64; a.len() + b.len() - 1];
        conv_mod(&a, &b, &mut e);
        assert_eq!(r, e);
    }
}
