//! Native replay for mirsym counterexamples: feeds concrete bytes to the real rlib_io::Reader through a scripted
//! `Read` adaptor (chunk lengths and Interrupted faults as in the model's schedule) and prints each result.
//! usage: vh_ioreplay read <hexbytes|-> <schedule: comma list of lengths or 'i'|-> <script: ops separated by ';'>
//!        vh_ioreplay write <script>   (see write_main)
use rlib_io::{Reader, Writer};
use std::io::{Read, Write};

struct Scripted {
    data: Vec<u8>,
    pos: usize,
    sched: Vec<Option<usize>>, // None = Interrupted
    k: usize,
}

impl Read for Scripted {
    fn read(&mut self, buf: &mut [u8]) -> std::io::Result<usize> {
        let rem = self.data.len() - self.pos;
        let want = if self.k < self.sched.len() {
            let s = self.sched[self.k];
            self.k += 1;
            match s {
                None => return Err(std::io::Error::new(std::io::ErrorKind::Interrupted, "scripted interrupt")),
                Some(n) => n,
            }
        } else {
            rem
        };
        let n = want.min(rem).min(buf.len());
        buf[..n].copy_from_slice(&self.data[self.pos..self.pos + n]);
        self.pos += n;
        Ok(n)
    }
}

fn hex(s: &[u8]) -> String {
    s.iter().map(|b| format!("{:02x}", b)).collect()
}

macro_rules! int_case {
    ($r:expr, $ty:expr, $($t:ident),*) => {
        match $ty {
            $( stringify!($t) => Some(format!("{}:{}", stringify!($t), $r.read::<$t>())), )*
            _ => None,
        }
    };
}

fn read_one(r: &mut Reader, ty: &str) -> String {
    if let Some(s) = int_case!(r, ty, i8, i16, i32, i64, i128, isize, u8, u16, u32, u64, u128, usize) {
        return s;
    }
    match ty {
        "String" => format!("str:{}", hex(r.read::<String>().as_bytes())),
        "char" => format!("char:{}", r.read::<char>() as u32),
        "(i32,i32)" => { let (a, b): (i32, i32) = r.read(); format!("tuple[i32:{},i32:{}]", a, b) }
        "(i8,String)" => { let (a, b): (i8, String) = r.read(); format!("tuple[i8:{},str:{}]", a, hex(b.as_bytes())) }
        "(String,u8)" => { let (a, b): (String, u8) = r.read(); format!("tuple[str:{},u8:{}]", hex(a.as_bytes()), b) }
        "(u8,char,i16)" => { let (a, b, c): (u8, char, i16) = r.read(); format!("tuple[u8:{},char:{},i16:{}]", a, b as u32, c) }
        "(u8,u8,u8,u8,u8,u8,u8,u8)" => {
            let t: (u8, u8, u8, u8, u8, u8, u8, u8) = r.read();
            format!("tuple[u8:{},u8:{},u8:{},u8:{},u8:{},u8:{},u8:{},u8:{}]", t.0, t.1, t.2, t.3, t.4, t.5, t.6, t.7)
        }
        _ => format!("UNSUPPORTED-TYPE:{}", ty),
    }
}

fn read_vec(r: &mut Reader, ty: &str, n: usize) -> String {
    let items: Vec<String> = match ty {
        "i32" => r.read_vec::<i32>(n).iter().map(|x| format!("i32:{}", x)).collect(),
        "u8" => r.read_vec::<u8>(n).iter().map(|x| format!("u8:{}", x)).collect(),
        "i8" => r.read_vec::<i8>(n).iter().map(|x| format!("i8:{}", x)).collect(),
        "String" => r.read_vec::<String>(n).iter().map(|x| format!("str:{}", hex(x.as_bytes()))).collect(),
        _ => vec![format!("UNSUPPORTED-TYPE:{}", ty)],
    };
    format!("vec[{}]", items.join(","))
}

fn read_main(args: &[String]) {
    let data: Vec<u8> = if args[0] == "-" { vec![] } else {
        (0..args[0].len() / 2).map(|i| u8::from_str_radix(&args[0][2 * i..2 * i + 2], 16).unwrap()).collect()
    };
    let sched: Vec<Option<usize>> = if args[1] == "-" { vec![] } else {
        args[1].split(',').map(|s| if s == "i" { None } else { Some(s.parse().unwrap()) }).collect()
    };
    let script: Vec<String> = args[2].split(';').map(|s| s.to_string()).collect();
    let src = Scripted { data, pos: 0, sched, k: 0 };
    let res = std::panic::catch_unwind(move || {
        let mut out: Vec<String> = Vec::new();
        let mut r = Reader::new(Box::new(src));
        for op in script.iter() {
            let parts: Vec<&str> = op.split(':').collect();
            let s = match parts[0] {
                "r" => read_one(&mut r, parts[1]),
                "l" => match r.read_line() { Some(l) => format!("Some(str:{})", hex(l.as_bytes())), None => "None".to_string() },
                "e" => format!("bool:{}", r.is_eof()),
                "v" => read_vec(&mut r, parts[1], parts[2].parse().unwrap()),
                "L" => format!("vec[{}]", r.read_lines().iter().map(|l| format!("str:{}", hex(l.as_bytes()))).collect::<Vec<_>>().join(",")),
                _ => "UNSUPPORTED-OP".to_string(),
            };
            println!("{}", s);
            out.push(s);
        }
        out
    });
    if res.is_err() {
        println!("PANIC");
    }
}

/// a picky but lawful sink: every third call reports Interrupted, the others accept at most half of what is offered
/// (at least one byte); `write_all` makes this invisible, a bare `write` does not
struct Sink(std::rc::Rc<std::cell::RefCell<Vec<u8>>>, usize);
impl Write for Sink {
    fn write(&mut self, buf: &[u8]) -> std::io::Result<usize> {
        self.1 += 1;
        if self.1 % 3 == 1 {
            return Err(std::io::Error::new(std::io::ErrorKind::Interrupted, "scripted interrupt"));
        }
        let k = if buf.len() > 1 { (buf.len() + 1) / 2 } else { buf.len() };
        self.0.borrow_mut().extend_from_slice(&buf[..k]);
        Ok(k)
    }
    fn flush(&mut self) -> std::io::Result<()> { Ok(()) }
}

macro_rules! wint_case {
    ($w:expr, $ty:expr, $val:expr, $($t:ident),*) => {
        match $ty {
            $( stringify!($t) => { $w.write(&$val.parse::<$t>().unwrap()); true } )*
            _ => false,
        }
    };
}

/// write script: ops separated by ';' : `<type>:<decimal>` | `s:<hex>` (a &str) | `S:<hex>` (a String) | `c:<code>` | `p:<n>` (n filler bytes 'x' as one &str) | `f` flush
/// ends by dropping the writer unless the last op is `nodrop`
fn write_main(args: &[String]) {
    let sink = std::rc::Rc::new(std::cell::RefCell::new(Vec::new()));
    {
        let mut w = Writer::new(Box::new(Sink(sink.clone(), 0)));
        for op in args[0].split(';') {
            let parts: Vec<&str> = op.split(':').collect();
            let unhex = |h: &str| -> String { (0..h.len() / 2).map(|i| u8::from_str_radix(&h[2 * i..2 * i + 2], 16).unwrap() as char).collect() };
            match parts[0] {
                "s" => { let s = unhex(parts[1]); w.write(&s.as_str()); }
                "S" => { let s = unhex(parts[1]); w.write(&s); }
                "c" => w.write_char(parts[1].parse::<u8>().unwrap() as char),
                "p" => { let s: String = std::iter::repeat('x').take(parts[1].parse().unwrap()).collect(); w.write(&s.as_str()); }
                "f" => w.flush(),
                "vi32" => { let v: Vec<i32> = parts[1].split(',').filter(|x| !x.is_empty()).map(|x| x.parse().unwrap()).collect(); w.write(&v); }
                "t2" => { let t: (i32, u8) = (parts[1].parse().unwrap(), parts[2].parse().unwrap()); w.write(&t); }
                ty => { if !wint_case!(w, ty, parts[1], i8, i16, i32, i64, i128, isize, u8, u16, u32, u64, u128, usize) { println!("UNSUPPORTED-OP:{}", op); } }
            }
        }
    }
    println!("sink:{}", hex(&sink.borrow()));
}

fn main() {
    let args: Vec<String> = std::env::args().collect();
    std::panic::set_hook(Box::new(|info| { eprintln!("panic: {}", info); }));
    match args[1].as_str() {
        "read" => read_main(&args[2..]),
        "write" => write_main(&args[2..]),
        _ => println!("usage"),
    }
}
