//! C06 — Modular<M> is the ring Z/M with canonical representatives and true inverses.
use rlib_mint::Modular;

fn any_elem<const M: u32>() -> Modular<M> {
    // an arbitrary canonical element: new() is onto [0, M) (shown by the `new` harness)
    let v: u32 = kani::any();
    kani::assume(v < M);
    let x = Modular::<M>::new(v as i64);
    assert!(x.inner() == v);
    x
}

fn h_new<const M: u32>() {
    let v: i64 = kani::any();
    let x = Modular::<M>::new(v);
    assert!(x.inner() < M, "representative in [0, M)");
    assert!(x.inner() as i64 == v.rem_euclid(M as i64), "new reduces modulo M");
    assert!(Modular::<M>::md() == M);
    kani::cover!(v == i64::MIN);
    kani::cover!(v < 0 && x.inner() == M - 1);
}

fn h_addsub<const M: u32>() {
    let a = any_elem::<M>();
    let b = any_elem::<M>();
    let (x, y) = (a.inner() as u64, b.inner() as u64);
    let m = M as u64;
    let s = (a + b).inner() as u64;
    assert!(s < m && (s == x + y || s + m == x + y), "a+b is the representative of the integer sum");
    let d = (a - b).inner() as u64;
    assert!(d < m && (d + y == x || d + y == x + m), "a-b is the representative of the integer difference");
    let n = (-a).inner() as u64;
    assert!(n < m && (n + x == m || (n == 0 && x == 0)), "-a is the representative of the negation");
    let mut c = a;
    c += b;
    assert!(c == a + b);
    let mut c = a;
    c -= b;
    assert!(c == a - b);
    assert!((a == b) == (x == y), "equality is equality of representatives");
    kani::cover!(x == m - 1 && y == m - 1);
    kani::cover!(x == 0 && y == m - 1);
    kani::cover!(x + y == m);
}

fn h_mul<const M: u32>() {
    let a = any_elem::<M>();
    let b = any_elem::<M>();
    let p = (a * b).inner();
    assert!(p < M);
    assert!(p as i64 == (a.inner() as i64 * b.inner() as i64).rem_euclid(M as i64), "a*b is the representative of the integer product");
    let mut c = a;
    c *= b;
    assert!(c == a * b);
    kani::cover!(a.inner() == M - 1 && b.inner() == M - 1);
}

fn coprime<const K: usize>(mut a: u32, mut b: u32) -> bool {
    // harness-side Euclid (concrete M, symbolic y); K >= the Euclid length for the operand range of the harness
    let mut k = 0;
    while k < K {
        if b != 0 {
            let t = a % b;
            a = b;
            b = t;
        }
        k += 1;
    }
    assert!(b == 0, "harness Euclid bound K is large enough");
    a == 1
}

fn h_inv<const M: u32, const K: usize>(all: bool) {
    let y = any_elem::<M>();
    if !all {
        kani::assume((y.inner() >= 1 && y.inner() <= 16) || y.inner() + 16 >= M);
    }
    kani::assume(coprime::<K>(y.inner(), M));
    let i = y.inv();
    assert!(i.inner() < M);
    assert!((y * i).inner() == 1 % M, "y * inv(y) = 1");
    let x = any_elem::<M>();
    let q = x / y;
    assert!(q.inner() < M);
    assert!(q * y == x, "(x / y) * y = x");
    let mut c = x;
    c /= y;
    assert!(c == q);
    kani::cover!(y.inner() == M - 1);
    kani::cover!(M == 2 || y.inner() == 2 || M % 2 == 0);
}

fn naive_pow<const M: u32>(a: Modular<M>, d: u64, cap: u64) -> Modular<M> {
    let mut r = Modular::<M>::new(1);
    let mut k = 0;
    while k < cap {
        if k < d {
            r = r * a;
        }
        k += 1;
    }
    r
}

fn h_pow_small<const M: u32>() {
    let a = any_elem::<M>();
    let d: u64 = kani::any();
    kani::assume(d <= 16);
    assert!(a.pow(d) == naive_pow(a, d, 16), "pow = d-fold product");
    assert!(a.pow(0).inner() == 1 % M);
    kani::cover!(d == 16 && a.inner() == M - 1);
}

/// every 64-bit exponent, prime modulus P: Fermat-reduced reference
fn h_pow_fermat<const P: u32>() {
    let a = any_elem::<P>();
    let d: u64 = kani::any();
    let got = a.pow(d);
    let exp = if d == 0 {
        Modular::<P>::new(1)
    } else if a.inner() == 0 {
        Modular::<P>::new(0)
    } else {
        naive_pow(a, d % (P as u64 - 1), P as u64 - 1)
    };
    assert!(got == exp, "pow over all 64-bit exponents agrees with the Fermat-reduced product");
    kani::cover!(d == u64::MAX);
    kani::cover!(d > (1u64 << 63) && a.inner() == P - 1);
}

macro_rules! per_modulus {
    ($m:expr, $new:ident, $addsub:ident, $mul:ident) => {
        #[kani::proof]
        fn $new() { h_new::<$m>(); }
        #[kani::proof]
        fn $addsub() { h_addsub::<$m>(); }
        #[kani::proof]
        fn $mul() { h_mul::<$m>(); }
    };
}
per_modulus!(2, c06_new_m2, c06_addsub_m2, c06_mul_m2);
per_modulus!(3, c06_new_m3, c06_addsub_m3, c06_mul_m3);
per_modulus!(4, c06_new_m4, c06_addsub_m4, c06_mul_m4);
per_modulus!(7, c06_new_m7, c06_addsub_m7, c06_mul_m7);
per_modulus!(12, c06_new_m12, c06_addsub_m12, c06_mul_m12);
per_modulus!(251, c06_new_m251, c06_addsub_m251, c06_mul_m251);
per_modulus!(256, c06_new_m256, c06_addsub_m256, c06_mul_m256);
per_modulus!(65537, c06_new_m65537, c06_addsub_m65537, c06_mul_m65537);
per_modulus!(998244353, c06_new_m998244353, c06_addsub_m998244353, c06_mul_m998244353);
per_modulus!(1000000007, c06_new_m1000000007, c06_addsub_m1000000007, c06_mul_m1000000007);
per_modulus!(2147483646, c06_new_m2147483646, c06_addsub_m2147483646, c06_mul_m2147483646);
per_modulus!(2147483647, c06_new_m2147483647, c06_addsub_m2147483647, c06_mul_m2147483647);

macro_rules! inv_all {
    ($m:expr, $name:ident, $unw:expr) => {
        #[kani::proof]
        #[kani::unwind($unw)]
        fn $name() { h_inv::<$m, { $unw - 2 }>(true); }
    };
}
macro_rules! inv_win {
    ($m:expr, $name:ident, $unw:expr) => {
        #[kani::proof]
        #[kani::unwind($unw)]
        fn $name() { h_inv::<$m, { $unw - 2 }>(false); }
    };
}
inv_all!(2, c06_inv_m2, 5);
inv_all!(3, c06_inv_m3, 6);
inv_all!(4, c06_inv_m4, 6);
inv_all!(5, c06_inv_m5, 7);
inv_all!(6, c06_inv_m6, 6);
inv_all!(7, c06_inv_m7, 7);
inv_all!(8, c06_inv_m8, 8);
inv_all!(9, c06_inv_m9, 7);
inv_all!(10, c06_inv_m10, 7);
inv_all!(11, c06_inv_m11, 8);
inv_all!(12, c06_inv_m12, 8);
inv_all!(13, c06_inv_m13, 9);
inv_all!(16, c06_inv_m16, 8);
inv_all!(61, c06_inv_m61, 10);
inv_all!(251, c06_inv_m251, 13);
inv_all!(256, c06_inv_m256, 13);
inv_win!(65537, c06_inv_m65537, 9);
inv_win!(998244353, c06_inv_m998244353, 10);
inv_win!(1000000007, c06_inv_m1000000007, 9);
inv_win!(2147483646, c06_inv_m2147483646, 9);
inv_win!(2147483647, c06_inv_m2147483647, 10);

macro_rules! pow_small {
    ($m:expr, $name:ident) => {
        #[kani::proof]
        #[kani::unwind(18)]
        fn $name() { h_pow_small::<$m>(); }
    };
}
pow_small!(2, c06_pow_m2);
pow_small!(3, c06_pow_m3);
pow_small!(4, c06_pow_m4);
pow_small!(7, c06_pow_m7);
pow_small!(9, c06_pow_m9);
pow_small!(12, c06_pow_m12);
pow_small!(13, c06_pow_m13);
pow_small!(998244353, c06_pow_m998244353);
pow_small!(2147483647, c06_pow_m2147483647);

macro_rules! pow_fermat {
    ($p:expr, $name:ident) => {
        #[kani::proof]
        #[kani::unwind(66)]
        fn $name() { h_pow_fermat::<$p>(); }
    };
}
pow_fermat!(2, c06_powall_p2);
pow_fermat!(3, c06_powall_p3);
pow_fermat!(5, c06_powall_p5);
pow_fermat!(7, c06_powall_p7);

#[kani::proof]
fn c06_twin_false() {
    let a = any_elem::<12>();
    let b = any_elem::<12>();
    assert!((a * b).inner() != 0 || a.inner() == 0 || b.inner() == 0, "twin: deliberately false (12 has zero divisors)");
}
