//! C11 — gcd, lcm, linear Diophantine solver and CRT return the number-theoretic answer.
use rlib_gcd::*;

macro_rules! gcd_signed {
    ($name:ident, $t:ty, $w:ty, $bound:expr, $unw:expr) => {
        #[kani::proof]
        #[kani::unwind($unw)]
        fn $name() {
            let a: $t = kani::any();
            let b: $t = kani::any();
            kani::assume(a >= -$bound && a <= $bound && b >= -$bound && b <= $bound);
            let g = gcd(a, b);
            assert!(g >= 0, "gcd is non-negative");
            if a == 0 && b == 0 {
                assert!(g == 0, "gcd(0,0)=0");
            } else {
                assert!(g > 0);
                assert!(a % g == 0 && b % g == 0, "gcd divides both");
                // greatest: a Bezout pair exists (checked by multiplication in a wider type), so every
                // common divisor divides g
                match egcd(a, b, g) {
                    Some((x, y)) => assert!((a as $w) * (x as $w) + (b as $w) * (y as $w) == g as $w, "Bezout identity for g"),
                    None => assert!(false, "g is an integer combination of a and b"),
                }
                assert!(gcd(b, a) == g, "symmetric");
            }
            kani::cover!(a < 0 && b > 0 && g > 1, "mixed signs with a non-trivial gcd");
            kani::cover!(a == 0 && b < 0, "zero operand");
        }
    };
}

macro_rules! lcm_signed {
    ($name:ident, $t:ty, $w:ty, $bound:expr, $unw:expr) => {
        #[kani::proof]
        #[kani::unwind($unw)]
        fn $name() {
            let a: $t = kani::any();
            let b: $t = kani::any();
            kani::assume(a >= -$bound && a <= $bound && b >= -$bound && b <= $bound);
            kani::assume(!(a == 0 && b == 0));
            let g = gcd(a, b);
            // precondition: the mathematical result |a|/g*|b| fits the type (the product a*b need not)
            let aw = if a < 0 { -(a as $w) } else { a as $w };
            let bw = if b < 0 { -(b as $w) } else { b as $w };
            kani::assume(g != 0 && (aw / (g as $w)) * bw <= <$t>::MAX as $w);
            let l = lcm(a, b);
            assert!(l >= 0, "lcm is non-negative");
            let ab = (a as $w) * (b as $w);
            let abs_ab = if ab < 0 { -ab } else { ab };
            assert!((l as $w) * (g as $w) == abs_ab, "lcm * gcd = |a*b| (so lcm is the least common multiple)");
            if a != 0 && b != 0 {
                assert!(l % a == 0 && l % b == 0, "common multiple");
                assert!(l > 0);
            } else {
                assert!(l == 0);
            }
            kani::cover!(a < 0 && b < 0 && g > 1 && l > 0);
        }
    };
}

macro_rules! gcd_unsigned {
    ($name:ident, $t:ty, $w:ty, $bound:expr, $unw:expr) => {
        #[kani::proof]
        #[kani::unwind($unw)]
        fn $name() {
            let a: $t = kani::any();
            let b: $t = kani::any();
            kani::assume(a <= $bound && b <= $bound);
            let g = gcd(a, b);
            if a == 0 && b == 0 {
                assert!(g == 0);
            } else {
                assert!(g > 0 && a % g == 0 && b % g == 0, "gcd divides both");
                // greatest: no larger common divisor (d symbolic)
                let d: $t = kani::any();
                kani::assume(d > g && d <= $bound);
                assert!(!(a % d == 0 && b % d == 0), "no larger common divisor");
                // precondition: the lcm itself fits the type (the product a*b need not)
                kani::assume(((a as $w) / (g as $w)) * (b as $w) <= <$t>::MAX as $w);
                let l = lcm(a, b);
                assert!((l as $w) * (g as $w) == (a as $w) * (b as $w), "lcm * gcd = a*b");
            }
            kani::cover!(g > 1 && a != b && a != 0 && b != 0);
        }
    };
}

gcd_signed!(c11_gcd_i8, i8, i32, 31, 12);
gcd_signed!(c11_gcd_i16, i16, i32, 31, 12);
gcd_signed!(c11_gcd_i32, i32, i64, 31, 12);
gcd_signed!(c11_gcd_i64, i64, i128, 31, 12);
lcm_signed!(c11_lcm_i8, i8, i32, 31, 12);
lcm_signed!(c11_lcm_i16, i16, i32, 31, 12);
lcm_signed!(c11_lcm_i32, i32, i64, 31, 12);
lcm_signed!(c11_lcm_i64, i64, i128, 31, 12);
gcd_unsigned!(c11_gcd_u8, u8, u32, 31, 12);
gcd_unsigned!(c11_gcd_u8_b100, u8, u32, 100, 14);
lcm_signed!(c11_lcm_i8_b100, i8, i32, 100, 14);
gcd_unsigned!(c11_gcd_u16, u16, u32, 31, 12);
gcd_unsigned!(c11_gcd_u32, u32, u64, 31, 12);
gcd_unsigned!(c11_gcd_u64, u64, u128, 31, 12);
// thorough: whole i8/u8 range except MIN (Fibonacci bound: 13 > 127's Euclid length 10)
gcd_signed!(c11_gcd_i8_full, i8, i32, 127, 14);
gcd_unsigned!(c11_gcd_u8_full, u8, u32, 255, 15);
gcd_signed!(c11_gcd_i64_255, i64, i128, 255, 15);
gcd_signed!(c11_gcd_i32_255, i32, i64, 255, 15);

macro_rules! egcd_h {
    ($name:ident, $t:ty, $w:ty, $bound:expr, $unw:expr) => {
        #[kani::proof]
        #[kani::unwind($unw)]
        fn $name() {
            let a: $t = kani::any();
            let b: $t = kani::any();
            let c: $t = kani::any();
            kani::assume(a >= -$bound && a <= $bound && b >= -$bound && b <= $bound && c >= -$bound && c <= $bound);
            kani::assume(!(a == 0 && b == 0));
            let g = gcd(a, b);
            match egcd(a, b, c) {
                Some((x, y)) => {
                    assert!((a as $w) * (x as $w) + (b as $w) * (y as $w) == c as $w, "a*x + b*y = c exactly");
                    assert!(c % g == 0);
                }
                None => assert!(c % g != 0, "none only when gcd(a,b) does not divide c"),
            }
            kani::cover!(a == 0 && c != 0 && c % b == 0, "zero first coefficient, solvable");
            kani::cover!(b == 0 && c != 0 && c % a == 0, "zero second coefficient, solvable");
            kani::cover!(a < 0 && b > 1 && g > 1 && c % g == 0 && c != 0, "non-coprime, solvable");
        }
    };
}
egcd_h!(c11_egcd_i32, i32, i64, 15, 10);
egcd_h!(c11_egcd_i64, i64, i128, 15, 10);
egcd_h!(c11_egcd_i16, i16, i32, 15, 10);
egcd_h!(c11_egcd_i64_31, i64, i128, 31, 12);

macro_rules! crt_h {
    ($name:ident, $t:ty, $mmax:expr, $unw:expr) => {
        #[kani::proof]
        #[kani::unwind($unw)]
        fn $name() {
            let m1: $t = kani::any();
            let m2: $t = kani::any();
            let a1: $t = kani::any();
            let a2: $t = kani::any();
            kani::assume(m1 >= 1 && m1 <= $mmax && m2 >= 1 && m2 <= $mmax);
            kani::assume(a1 >= 0 && a1 < m1 && a2 >= 0 && a2 < m2);
            let g = gcd(m1, m2);
            let l = m1 / g * m2;
            match crt(a1, m1, a2, m2) {
                Some(t) => {
                    assert!(t >= 0 && t < l, "solution lies in [0, lcm)");
                    assert!(t % m1 == a1 && t % m2 == a2, "solution satisfies both congruences");
                    assert!((a2 - a1) % g == 0);
                }
                None => assert!((a2 - a1) % g != 0, "none only when the congruences are incompatible"),
            }
            kani::cover!(g > 1 && (a2 - a1) % g == 0 && a1 != a2 && m1 != m2, "compatible, non-coprime moduli");
            kani::cover!(m1 == 1 && m2 > 1);
        }
    };
}
crt_h!(c11_crt_i32, i32, 12, 10);
crt_h!(c11_crt_i64, i64, 12, 10);
crt_h!(c11_crt_i64_24, i64, 24, 12);

#[kani::proof]
#[kani::unwind(12)]
fn c11_twin_false() {
    let a: i32 = kani::any();
    let b: i32 = kani::any();
    kani::assume(a >= -31 && a <= 31 && b >= -31 && b <= 31);
    let g = gcd(a, b);
    assert!(g != 7 || a == 7, "twin: deliberately false");
}
