//! C14 — random draws respect their range and seed; shuffle is a permutation, all arrangements reachable.
use rlib_rand::randomable::Randomable;
use rlib_rand::{Rand, Rng};

macro_rules! int_ranges {
    ($name:ident, $t:ty, $u:ty) => {
        #[kani::proof]
        fn $name() {
            let s: $t = kani::any();
            let e: $t = kani::any();
            let raw: u64 = kani::any();
            let form: u8 = kani::any();
            kani::assume(form < 5);
            match form {
                0 => {
                    kani::assume(s < e);
                    let x: $t = (s..e).gen_from_u64(raw);
                    assert!(s <= x && x < e, "half-open draw inside the range");
                }
                1 => {
                    kani::assume(s <= e);
                    let x: $t = (s..=e).gen_from_u64(raw);
                    assert!(s <= x && x <= e, "inclusive draw inside the range");
                }
                2 => {
                    kani::assume(e > 0);
                    let x: $t = (..e).gen_from_u64(raw);
                    assert!(0 <= x && x < e, "to-range draw inside the range");
                }
                3 => {
                    kani::assume(e >= 0);
                    let x: $t = (..=e).gen_from_u64(raw);
                    assert!(0 <= x && x <= e, "to-inclusive draw inside the range");
                }
                _ => {
                    let x: $t = (..).gen_from_u64(raw);
                    assert!(x == raw as $t, "full range takes the low bits");
                }
            }
            kani::cover!(form == 0 && raw == u64::MAX && s == <$t>::MIN && e == <$t>::MAX);
            kani::cover!(form == 1 && s == <$t>::MIN && e == <$t>::MAX && raw > (1u64 << 63));
            kani::cover!(form == 1 && s == e);
        }
    };
}
int_ranges!(c14_range_i8, i8, u8);
int_ranges!(c14_range_u8, u8, u8);
int_ranges!(c14_range_i16, i16, u16);
int_ranges!(c14_range_u16, u16, u16);
int_ranges!(c14_range_i32, i32, u32);
int_ranges!(c14_range_u32, u32, u32);
int_ranges!(c14_range_i64, i64, u64);
int_ranges!(c14_range_u64, u64, u64);
int_ranges!(c14_range_isize, isize, usize);
int_ranges!(c14_range_usize, usize, usize);

/// each value of a range is reachable: Skolem witness raw = v - start (as unsigned)
macro_rules! reach {
    ($name:ident, $t:ty, $u:ty) => {
        #[kani::proof]
        fn $name() {
            let s: $t = kani::any();
            let e: $t = kani::any();
            let v: $t = kani::any();
            let incl: bool = kani::any();
            kani::assume(s <= v && (v < e || (incl && v == e)));
            let raw = if incl && s == <$t>::MIN && e == <$t>::MAX { (v as $u) as u64 } else { (v as $u).wrapping_sub(s as $u) as u64 };
            let x: $t = if incl { (s..=e).gen_from_u64(raw) } else { (s..e).gen_from_u64(raw) };
            assert!(x == v, "every value of the range is produced by some raw output");
            kani::cover!(incl && v == e && s == <$t>::MIN);
            kani::cover!(!incl && v == s && e == <$t>::MAX);
        }
    };
}
reach!(c14_reach_i8, i8, u8);
reach!(c14_reach_u8, u8, u8);
reach!(c14_reach_i32, i32, u32);
reach!(c14_reach_u32, u32, u32);
reach!(c14_reach_i64, i64, u64);
reach!(c14_reach_u64, u64, u64);
reach!(c14_reach_i16, i16, u16);
reach!(c14_reach_usize, usize, usize);

#[kani::proof]
fn c14_f64_range() {
    let s: f64 = kani::any();
    let e: f64 = kani::any();
    let raw: u64 = kani::any();
    kani::assume(s.is_finite() && e.is_finite() && s < e);
    let x = (s..e).gen_from_u64(raw);
    assert!(s <= x && x < e, "float draw satisfies start <= x < end");
    kani::cover!(raw == u64::MAX);
    kani::cover!(raw == 0 && s < 0.0);
}

/// the same with moderate magnitudes only (|bounds| <= 2^40, length >= 2^-20): kept separate so that a
/// counterexample in the plain region is not masked by the extreme one
#[kani::proof]
fn c14_f64_range_moderate() {
    let s: f64 = kani::any();
    let e: f64 = kani::any();
    let raw: u64 = kani::any();
    kani::assume(s >= -1.0e12 && e <= 1.0e12 && e - s >= 1.0e-6);
    let x = (s..e).gen_from_u64(raw);
    assert!(s <= x && x < e, "float draw satisfies start <= x < end");
    kani::cover!(raw >= u64::MAX - 1024);
}

#[kani::proof]
#[kani::unwind(10)]
fn c14_determinism() {
    let seed: u64 = kani::any();
    let mut a = Rng::from_seed(seed);
    let mut b = Rng::from_seed(seed);
    assert!(a.next_raw() == b.next_raw(), "equal seeds give equal streams (first output)");
    let mut c = a; // Copy
    let lo: i8 = kani::any();
    let hi: i8 = kani::any();
    kani::assume(lo < hi);
    let x: i8 = a.next(lo..hi);
    let y: i8 = c.next(lo..hi);
    assert!(x == y, "a copy continues with the same stream");
    kani::cover!(seed == 0);
}

fn shuffle_perm<const N: usize>() {
    let seed: u64 = kani::any();
    let mut rng = Rng::from_seed(seed);
    let mut v = [0u8; N];
    let mut k = 0;
    while k < N { v[k] = k as u8; k += 1; }
    rng.shuffle(&mut v);
    // permutation: every value occurs exactly once
    let mut seen = [false; N];
    let mut k = 0;
    while k < N {
        assert!((v[k] as usize) < N && !seen[v[k] as usize], "shuffle returns a rearrangement of the same elements");
        seen[v[k] as usize] = true;
        k += 1;
    }
    kani::cover!(v[0] as usize == N - 1);
}
#[kani::proof]
#[kani::unwind(8)]
fn c14_shuffle_perm_n6() { shuffle_perm::<6>(); }
#[kani::proof]
#[kani::unwind(8)]
fn c14_shuffle_perm_n1() { shuffle_perm::<1>(); }

/// every rearrangement of 4 (3, 2) elements is reached by some seed: 24 + 6 + 2 cover goals
#[kani::proof]
#[kani::unwind(8)]
fn c14_shuffle_reach() {
    let seed: u64 = kani::any();
    let mut rng = Rng::from_seed(seed);
    let mut v = [0u8, 1, 2, 3];
    rng.shuffle(&mut v);
    let code = (v[0] as u32) * 64 + (v[1] as u32) * 16 + (v[2] as u32) * 4 + v[3] as u32;
    macro_rules! c4 { ($($a:expr, $b:expr, $c:expr, $d:expr);*) => { $( kani::cover!(code == $a * 64 + $b * 16 + $c * 4 + $d, "arrangement of 4 reachable"); )* } }
    c4!(0,1,2,3; 0,1,3,2; 0,2,1,3; 0,2,3,1; 0,3,1,2; 0,3,2,1;
        1,0,2,3; 1,0,3,2; 1,2,0,3; 1,2,3,0; 1,3,0,2; 1,3,2,0;
        2,0,1,3; 2,0,3,1; 2,1,0,3; 2,1,3,0; 2,3,0,1; 2,3,1,0;
        3,0,1,2; 3,0,2,1; 3,1,0,2; 3,1,2,0; 3,2,0,1; 3,2,1,0);
    let mut rng3 = Rng::from_seed(seed);
    let mut w = [0u8, 1, 2];
    rng3.shuffle(&mut w);
    let c3 = (w[0] as u32) * 16 + (w[1] as u32) * 4 + w[2] as u32;
    kani::cover!(c3 == 0 * 16 + 1 * 4 + 2, "arrangement of 3 reachable");
    kani::cover!(c3 == 0 * 16 + 2 * 4 + 1, "arrangement of 3 reachable");
    kani::cover!(c3 == 1 * 16 + 0 * 4 + 2, "arrangement of 3 reachable");
    kani::cover!(c3 == 1 * 16 + 2 * 4 + 0, "arrangement of 3 reachable");
    kani::cover!(c3 == 2 * 16 + 0 * 4 + 1, "arrangement of 3 reachable");
    kani::cover!(c3 == 2 * 16 + 1 * 4 + 0, "arrangement of 3 reachable");
}

/// consecutive draws from a small range are not periodic: for every range length L in {2,4,8,16} and
/// every period p <= 16 some seed and position break the period
#[kani::proof]
#[kani::unwind(36)]
fn c14_not_periodic() {
    let seed: u64 = kani::any();
    let mut rng = Rng::from_seed(seed);
    let mut d2 = [0u8; 33];
    let mut d4 = [0u8; 33];
    let mut d16 = [0u8; 33];
    let mut k = 0;
    while k < 33 {
        let raw = rng.next_raw();
        d2[k] = (0u8..2).gen_from_u64(raw);
        d4[k] = (0u8..4).gen_from_u64(raw);
        d16[k] = (0u8..16).gen_from_u64(raw);
        k += 1;
    }
    let i: usize = kani::any();
    kani::assume(i < 16);
    kani::cover!(d2[i] != d2[i + 2], "0..2 draws are not 2-periodic");
    kani::cover!(d2[i] == d2[i + 1], "0..2 draws do not strictly alternate");
    kani::cover!(d4[i] != d4[i + 4], "0..4 draws are not 4-periodic");
    kani::cover!(d4[i] != d4[i + 8], "0..4 draws are not 8-periodic");
    kani::cover!(d16[i] != d16[i + 16], "0..16 draws are not 16-periodic");
}

#[kani::proof]
fn c14_twin_false() {
    let s: i16 = kani::any();
    let e: i16 = kani::any();
    let raw: u64 = kani::any();
    kani::assume(s < e);
    let x: i16 = (s..e).gen_from_u64(raw);
    assert!(x != e - 1 || s == e - 1, "twin: deliberately false");
}
