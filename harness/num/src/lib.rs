#![allow(dead_code, unused_assignments, unused_macros)]
#[cfg(kani)]
mod gcds;
#[cfg(kani)]
mod mint;
#[cfg(kani)]
mod rand;
#[cfg(kani)]
mod rational;
