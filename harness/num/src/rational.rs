//! C07 — Rational arithmetic is exact and canonical; order and equality follow the value.
use rlib_gcd::gcd;
use rlib_rational::Rational;
use std::cmp::Ordering;
use std::hash::{Hash, Hasher};

struct Rec(u64, u32);
impl Hasher for Rec {
    fn finish(&self) -> u64 { self.0 }
    fn write(&mut self, bytes: &[u8]) {
        let mut i = 0;
        while i < bytes.len() {
            self.0 = self.0.rotate_left(8) ^ (bytes[i] as u64);
            self.1 += 1;
            i += 1;
        }
    }
}

macro_rules! rat_harnesses {
    ($modname:ident, $t:ty, $w:ty, $bound:expr, $unw:expr) => {
        mod $modname {
            use super::*;
            type R = Rational<$t>;

            fn any_frac() -> ($t, $t, R) {
                let a: $t = kani::any();
                let b: $t = kani::any();
                kani::assume(a >= -$bound && a <= $bound && b >= -$bound && b <= $bound && b != 0);
                (a, b, R::new(a, b))
            }

            /// canonical form: positive denominator, lowest terms, same value as p/q
            fn canon(r: &R, p: $w, q: $w) {
                assert!(r.b > 0, "denominator positive");
                assert!((r.a as $w) * q == p * (r.b as $w), "exact value");
                assert!(gcd(r.a, r.b) == 1, "lowest terms");
            }

            #[kani::proof]
            #[kani::unwind($unw)]
            pub(crate) fn new_canonical() {
                let (a, b, x) = any_frac();
                canon(&x, a as $w, b as $w);
                let i = R::new_int(a);
                assert!(i.a == a && i.b == 1);
                kani::cover!(b < 0 && a < 0 && x.a > 1 && x.b > 1);
                kani::cover!(a == 0 && b < 0);
            }

            #[kani::proof]
            #[kani::unwind($unw)]
            pub(crate) fn add_sub() {
                let (a, b, x) = any_frac();
                let (c, d, y) = any_frac();
                let (a, b, c, d) = (a as $w, b as $w, c as $w, d as $w);
                let s = x + y;
                canon(&s, a * d + c * b, b * d);
                let m = x - y;
                canon(&m, a * d - c * b, b * d);
                // by-reference and assigning forms give identical results
                assert!(x + &y == s && x - &y == m);
                let mut z = x; z += y; assert!(z == s);
                let mut z = x; z += &y; assert!(z == s);
                let mut z = x; z -= y; assert!(z == m);
                let mut z = x; z -= &y; assert!(z == m);
                kani::cover!(b < 0 && d < 0 && s.b > 1 && s.a < 0);
                kani::cover!(x.b > 1 && y.b > 1 && gcd(x.b, y.b) > 1 && m.a != 0, "operands sharing a factor across the fractions");
            }

            #[kani::proof]
            #[kani::unwind($unw)]
            pub(crate) fn mul_div_neg() {
                let (a, b, x) = any_frac();
                let (c, d, y) = any_frac();
                let (a, b, c, d) = (a as $w, b as $w, c as $w, d as $w);
                let p = x * y;
                canon(&p, a * c, b * d);
                assert!(x * &y == p);
                let mut z = x; z *= y; assert!(z == p);
                let mut z = x; z *= &y; assert!(z == p);
                if c != 0 {
                    let q = x / y;
                    canon(&q, a * d, b * c);
                    assert!(x / &y == q);
                    let mut z = x; z /= y; assert!(z == q);
                    let mut z = x; z /= &y; assert!(z == q);
                    kani::cover!(c < 0 && a > 0 && q.b > 1, "division by a negative value");
                }
                let n = -x;
                canon(&n, -a, b);
                kani::cover!(b < 0 && d < 0 && p.b > 1);
            }

            #[kani::proof]
            #[kani::unwind($unw)]
            pub(crate) fn order_eq_hash() {
                let (a, b, x) = any_frac();
                let (c, d, y) = any_frac();
                let (a, b, c, d) = (a as $w, b as $w, c as $w, d as $w);
                // numeric comparison by cross-multiplication with the sign of the denominators
                let lhs = a * d;
                let rhs = c * b;
                let flip = (b < 0) != (d < 0);
                let num_ord = if lhs == rhs { Ordering::Equal } else if (lhs < rhs) != flip { Ordering::Less } else { Ordering::Greater };
                assert!(x.cmp(&y) == num_ord, "cmp is the numeric order");
                assert!(x.partial_cmp(&y) == Some(num_ord));
                assert!((x == y) == (num_ord == Ordering::Equal), "== coincides with numeric equality");
                assert!((x < y) == (num_ord == Ordering::Less) && (x >= y) == (num_ord != Ordering::Less));
                let mut h1 = Rec(0, 0);
                let mut h2 = Rec(0, 0);
                x.hash(&mut h1);
                y.hash(&mut h2);
                if num_ord == Ordering::Equal {
                    assert!(h1.finish() == h2.finish() && h1.1 == h2.1, "equal values hash identically");
                }
                kani::cover!(num_ord == Ordering::Equal && a != c, "equal values from different representations");
                kani::cover!(num_ord == Ordering::Less && b < 0 && d > 0);
            }

            #[kani::proof]
            #[kani::unwind($unw)]
            pub(crate) fn floor_ceil() {
                let (_a, _b, x) = any_frac();
                let (p, q) = (x.a as $w, x.b as $w);
                let f = x.floor();
                assert!(f.b == 1);
                assert!((f.a as $w) * q <= p && p < ((f.a as $w) + 1) * q, "floor: greatest integer <= x");
                let c = x.ceil();
                assert!(c.b == 1);
                assert!(((c.a as $w) - 1) * q < p && p <= (c.a as $w) * q, "ceil: least integer >= x");
                kani::cover!(p < 0 && q > 1 && f.a != c.a);
                kani::cover!(p < 0 && q == 1);
            }
        }
    };
}

rat_harnesses!(r_i8, i8, i32, 7, 12);
rat_harnesses!(r_i16, i16, i32, 7, 12);
rat_harnesses!(r_i16b, i16, i32, 10, 13);
rat_harnesses!(r_i32, i32, i64, 10, 13);
rat_harnesses!(r_i64, i64, i128, 7, 12);
rat_harnesses!(r_i128, i128, i128, 5, 11);

#[kani::proof]
#[kani::unwind(8)]
fn c07_twin_false() {
    let a: i8 = kani::any();
    let b: i8 = kani::any();
    kani::assume(a >= -7 && a <= 7 && b >= -7 && b <= 7 && b != 0);
    let x = Rational::<i8>::new(a, b);
    assert!(x.b != 3 || x.a > 0, "twin: deliberately false");
}
