//! Native probes used as replays for the existential C14 obligations: the solver says "no seed reaches goal G";
//! the probe samples seeds against the real crate and fails when it cannot reach G either.
use rlib_rand::{Rand, Rng};
use std::collections::HashSet;

fn seeds() -> impl Iterator<Item = u64> {
    (0..200_000u64).flat_map(|i| [i, i.wrapping_mul(0x9E37_79B9_7F4A_7C15) ^ (i << 40), !i])
}

#[test]
fn shuffle_reach() {
    let mut seen4 = HashSet::new();
    let mut seen3 = HashSet::new();
    for s in seeds() {
        let mut v = [0u8, 1, 2, 3];
        Rng::from_seed(s).shuffle(&mut v);
        seen4.insert(v);
        let mut w = [0u8, 1, 2];
        Rng::from_seed(s).shuffle(&mut w);
        seen3.insert(w);
    }
    assert!(seen4.len() == 24 && seen3.len() == 6, "only {} of 24 and {} of 6 arrangements reached over 600000 seeds", seen4.len(), seen3.len());
}

#[test]
fn not_periodic() {
    let mut broke = [false; 5];
    for s in seeds().take(50_000) {
        let mut rng = Rng::from_seed(s);
        let mut d2 = [0u8; 33];
        let mut d4 = [0u8; 33];
        let mut d16 = [0u8; 33];
        for k in 0..33 {
            let mut c = rng;
            d2[k] = c.next(0u8..2);
            let mut c = rng;
            d4[k] = c.next(0u8..4);
            d16[k] = rng.next(0u8..16);
        }
        for i in 0..16 {
            broke[0] |= d2[i] != d2[i + 2];
            broke[1] |= d2[i] == d2[i + 1];
            broke[2] |= d4[i] != d4[i + 4];
            broke[3] |= d4[i] != d4[i + 8];
            broke[4] |= d16[i] != d16[i + 16];
        }
    }
    assert!(broke.iter().all(|b| *b), "periodic small-range draws: goals reached = {:?} (2-periodic, alternating, 4-, 8-, 16-periodic)", broke);
}

/// replay for the determinism obligation: two generators from the same seed (VERIF_DET_SEED) must give equal streams
#[test]
fn determinism_seed() {
    let seed: u64 = std::env::var("VERIF_DET_SEED").ok().and_then(|s| s.parse().ok()).unwrap_or(42);
    for _ in 0..50 {
        let mut a = Rng::from_seed(seed);
        std::thread::sleep(std::time::Duration::from_micros(50));
        let mut b = Rng::from_seed(seed);
        for _ in 0..8 {
            assert_eq!(a.next_raw(), b.next_raw(), "equal seeds gave different streams (seed {})", seed);
        }
    }
}
