//! native replay for C17: two threads create treap nodes at the same time. Run under Miri
//! (`cargo +nightly miri test`): a data race on the priority generator is reported as undefined behaviour.
//! Run natively it also checks that neither thread's priority stream has lost or duplicated draws.
use rlib_treap::TreapNode;

#[test]
fn two_threads_create_nodes() {
    let spawn = || {
        std::thread::spawn(|| {
            let mut ps = Vec::new();
            for _ in 0..64 {
                ps.push(TreapNode::new(0u8).priority);
            }
            ps
        })
    };
    let (a, b) = (spawn(), spawn());
    let (pa, pb) = (a.join().unwrap(), b.join().unwrap());
    for ps in [&pa, &pb] {
        let mut s = ps.clone();
        s.sort_unstable();
        s.dedup();
        assert_eq!(s.len(), ps.len(), "a thread saw the same priority twice");
    }
}
