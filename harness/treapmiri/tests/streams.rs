//! native replay for C17 outcome violations (draws lost or duplicated through interference without a memory-level data
//! race, e.g. a lock released between reading and writing back the generator): several threads create nodes at the same
//! time; afterwards either every thread saw the same stream (one generator per thread) or the draws handed out across
//! the threads are pairwise distinct up to the few birthday collisions 32-bit values have.
use rlib_treap::TreapNode;
use std::sync::{Arc, Barrier};

const THREADS: usize = 4;
const NODES: usize = 20_000;
const ROUNDS: usize = 5;

#[test]
fn concurrent_draws_are_not_duplicated() {
    for round in 0..ROUNDS {
        let barrier = Arc::new(Barrier::new(THREADS));
        let hs: Vec<_> = (0..THREADS)
            .map(|_| {
                let b = barrier.clone();
                std::thread::spawn(move || {
                    b.wait();
                    (0..NODES).map(|_| TreapNode::new(0u8).priority).collect::<Vec<u32>>()
                })
            })
            .collect();
        let streams: Vec<Vec<u32>> = hs.into_iter().map(|h| h.join().unwrap()).collect();
        if streams.iter().all(|s| *s == streams[0]) {
            continue; // per-thread generators: every thread sees what it would see running alone
        }
        let mut all: Vec<u32> = streams.iter().flatten().copied().collect();
        let total = all.len();
        all.sort_unstable();
        all.dedup();
        let dup = total - all.len();
        // expected birthday collisions among 80 000 32-bit values: < 1
        assert!(dup <= 8, "round {round}: {dup} of {total} concurrent draws were handed out more than once");
    }
}
