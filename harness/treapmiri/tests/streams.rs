//! native replay for C17 outcome violations (draws lost or duplicated through interference without a memory-level data
//! race, e.g. a lock released between reading and writing back the generator): several threads create nodes at the same
//! time; afterwards either every thread saw the same stream (one generator per thread) or the draws handed out across
//! the threads are pairwise distinct up to the few birthday collisions 32-bit values have.
use rlib_treap::TreapNode;
use std::sync::{Arc, Barrier};

const THREADS: usize = 4;
const NODES: usize = 20_000;
const ROUNDS: usize = 5;

#[test]
fn concurrent_draws_are_not_duplicated() {
    for round in 0..ROUNDS {
        let barrier = Arc::new(Barrier::new(THREADS));
        let hs: Vec<_> = (0..THREADS)
            .map(|_| {
                let b = barrier.clone();
                std::thread::spawn(move || {
                    b.wait();
                    (0..NODES).map(|_| TreapNode::new(0u8).priority).collect::<Vec<u32>>()
                })
            })
            .collect();
        let streams: Vec<Vec<u32>> = hs.into_iter().map(|h| h.join().unwrap()).collect();
        if streams.iter().all(|s| *s == streams[0]) {
            continue; // per-thread generators: every thread sees what it would see running alone
        }
        if round == 0 {
            // first round of a fresh process: a shared generator hands out the first THREADS * NODES draws of the seed-42 stream,
            // each exactly once and to every thread in stream order; a draw that the stream does not contain is foreign
            let mut rng = rlib_rand::Rng::from_seed(42);
            let global: Vec<u32> = (0..THREADS * NODES).map(|_| rng.next_raw() as u32).collect();
            let mut positions: std::collections::HashMap<u32, Vec<usize>> = std::collections::HashMap::new();
            for (i, &p) in global.iter().enumerate().rev() {
                positions.entry(p).or_default().push(i);
            }
            let repeated: std::collections::HashSet<u32> = positions.iter().filter(|(_, v)| v.len() > 1).map(|(&p, _)| p).collect();
            let (mut foreign, mut out_of_order) = (0usize, 0usize);
            for s in streams.iter() {
                let mut last = None;
                for &p in s.iter() {
                    match positions.get_mut(&p).and_then(|v| v.pop()) {
                        None => foreign += 1,
                        Some(_) if repeated.contains(&p) => {}
                        Some(i) => {
                            if last.map_or(false, |l| i < l) {
                                out_of_order += 1;
                            }
                            last = Some(i);
                        }
                    }
                }
            }
            let lost: usize = positions.values().map(|v| v.len()).sum();
            assert!(
                foreign == 0 && lost == 0 && out_of_order == 0,
                "round 0: no sequential execution explains the priorities: {foreign} draws foreign to the seed-42 stream or handed out twice, {lost} draws of the stream lost, {out_of_order} out of stream order within a thread"
            );
        }
        let mut all: Vec<u32> = streams.iter().flatten().copied().collect();
        let total = all.len();
        all.sort_unstable();
        all.dedup();
        let dup = total - all.len();
        // expected birthday collisions among 80 000 32-bit values: < 1
        assert!(dup <= 8, "round {round}: {dup} of {total} concurrent draws were handed out more than once");
    }
}
