// replay crate for C17: see tests/two_threads.rs
