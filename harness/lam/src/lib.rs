#![allow(dead_code, unused_assignments, unused_mut, unused_variables, unused_parens)]
#[cfg(kani)]
mod gen;
