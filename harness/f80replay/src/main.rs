//! native side of C18: runs the real rlib_f80 operators on the real FPU for operands given as f64 bit patterns.
//! usage: vh_f80replay <a_bits_hex> <b_bits_hex> [more pairs...]   -> one line per pair: key=value;...
use rlib_f80::f80;
use std::cmp::Ordering;

fn bytes(x: f80) -> String {
    let raw: [u8; 16] = unsafe { std::mem::transmute(x) };
    // sign|exp (2 bytes), 64-bit significand with explicit integer bit
    let se = u16::from_le_bytes([raw[8], raw[9]]);
    let sig = u64::from_le_bytes([raw[0], raw[1], raw[2], raw[3], raw[4], raw[5], raw[6], raw[7]]);
    format!("{:04x}:{:016x}", se, sig)
}

fn raw(se: u16, sig: u64) -> f80 {
    let mut b = [0u8; 16];
    b[..8].copy_from_slice(&sig.to_le_bytes());
    b[8..10].copy_from_slice(&se.to_le_bytes());
    unsafe { std::mem::transmute(b) }
}

/// `raw <se_hex> <sig_hex> <se_hex> <sig_hex>`: operands given as 80-bit patterns (values that need all 64 significand bits)
fn raw_main(args: &[String]) {
    let p = |i: usize| (u16::from_str_radix(&args[i], 16).unwrap(), u64::from_str_radix(&args[i + 1], 16).unwrap());
    let ((sa, ga), (sb, gb)) = (p(0), p(2));
    let (a, b) = (raw(sa, ga), raw(sb, gb));
    let pc = match a.partial_cmp(&b) { None => "None", Some(Ordering::Less) => "Less", Some(Ordering::Equal) => "Equal", Some(Ordering::Greater) => "Greater" };
    println!(
        "lt={};gt={};le={};ge={};eq={};ne={};pcmp={};min={};max={};abs={};neg={};nar={:016x}",
        a < b, a > b, a <= b, a >= b, a == b, a != b, pc, bytes(a.min(b)), bytes(a.max(b)), bytes(a.abs()), bytes(-a), f64::from(a).to_bits()
    );
}

fn main() {
    let args: Vec<String> = std::env::args().skip(1).collect();
    if !args.is_empty() && args[0] == "raw" {
        raw_main(&args[1..]);
        return;
    }
    let mut i = 0;
    while i + 1 < args.len() {
        let a64 = f64::from_bits(u64::from_str_radix(&args[i], 16).unwrap());
        let b64 = f64::from_bits(u64::from_str_radix(&args[i + 1], 16).unwrap());
        let (a, b) = (f80::from(a64), f80::from(b64));
        let pc = match a.partial_cmp(&b) { None => "None", Some(Ordering::Less) => "Less", Some(Ordering::Equal) => "Equal", Some(Ordering::Greater) => "Greater" };
        println!(
            "widen_a={};widen_b={};rt_a={:016x};add={};sub={};mul={};div={};neg={};lt={};gt={};le={};ge={};eq={};ne={};pcmp={};min={};max={};abs={};nar_add={:016x};nar_div={:016x}",
            bytes(a), bytes(b), f64::from(a).to_bits(), bytes(a + b), bytes(a - b), bytes(a * b), bytes(a / b), bytes(-a),
            a < b, a > b, a <= b, a >= b, a == b, a != b, pc, bytes(a.min(b)), bytes(a.max(b)), bytes(a.abs()),
            f64::from(a + b).to_bits(), f64::from(a / b).to_bits()
        );
        i += 2;
    }
}
