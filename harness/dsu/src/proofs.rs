use rlib_dsu::DSU;

fn root<const N: usize>(p: &[usize; N], mut v: usize) -> (usize, usize) {
    // bounded walk: N steps reach the fixed point of any forest over N elements
    let mut d = 0;
    let mut i = 0;
    while i < N {
        if p[v] != v {
            v = p[v];
            d += 1;
        }
        i += 1;
    }
    (v, d)
}

fn log2f(x: usize) -> usize {
    if x >= 8 { 3 } else if x >= 4 { 2 } else if x >= 2 { 1 } else { 0 }
}

fn inv<const N: usize>(p: &[usize; N], sz: &[usize; N]) -> bool {
    let mut ok = true;
    let mut x = 0;
    while x < N {
        ok &= p[x] < N;
        x += 1;
    }
    if !ok {
        return false;
    }
    let mut cnt = [0usize; N];
    let mut x = 0;
    while x < N {
        let (r, _) = root(p, x);
        ok &= p[r] == r;
        cnt[r] += 1;
        x += 1;
    }
    let mut x = 0;
    while x < N {
        let (r, d) = root(p, x);
        ok &= sz[r] == cnt[r] && d <= log2f(cnt[r]);
        x += 1;
    }
    ok
}

fn any_state<const N: usize>() -> ([usize; N], [usize; N], DSU) {
    let p: [usize; N] = kani::any();
    let sz: [usize; N] = kani::any();
    kani::assume(inv(&p, &sz));
    let d = DSU::verif_from_raw(p.to_vec(), sz.to_vec());
    (p, sz, d)
}

fn raw<const N: usize>(d: &DSU) -> ([usize; N], [usize; N]) {
    let (p, s) = d.verif_raw();
    assert!(p.len() == N && s.len() == N);
    let mut p2 = [0usize; N];
    let mut s2 = [0usize; N];
    let mut i = 0;
    while i < N {
        p2[i] = p[i];
        s2[i] = s[i];
        i += 1;
    }
    (p2, s2)
}

fn class_size<const N: usize>(p: &[usize; N], r: usize) -> usize {
    let mut c = 0;
    let mut x = 0;
    while x < N {
        if root(p, x).0 == r {
            c += 1;
        }
        x += 1;
    }
    c
}

fn un_step<const N: usize>() {
    let (p, _sz, mut d) = any_state::<N>();
    let u: usize = kani::any();
    let v: usize = kani::any();
    kani::assume(u < N && v < N);
    let (ru, _) = root(&p, u);
    let (rv, _) = root(&p, v);
    let res = d.un(u, v);
    assert!(res == (ru != rv), "un returns true exactly when it joined two different components");
    let (p2, s2) = raw::<N>(&d);
    assert!(inv(&p2, &s2), "J re-established: forest, sizes, depth <= log2(size)");
    // partition afterwards = old partition with the two classes joined (x, y play the universal quantifier)
    let x: usize = kani::any();
    let y: usize = kani::any();
    kani::assume(x < N && y < N);
    let (rx, _) = root(&p, x);
    let (ry, _) = root(&p, y);
    let joined = (rx == ru || rx == rv) && (ry == ru || ry == rv);
    assert!((root(&p2, x).0 == root(&p2, y).0) == (rx == ry || joined), "connectivity = old partition with the two classes joined");
    kani::cover!(N < 4 || (res && class_size(&p, ru) >= 2 && class_size(&p, rv) >= 2), "union of two non-trivial components");
    kani::cover!(!res && u != v, "union inside one component");
    core::mem::forget(d);
}

fn query_step<const N: usize>() {
    let (p, _sz, mut d) = any_state::<N>();
    let u: usize = kani::any();
    let v: usize = kani::any();
    kani::assume(u < N && v < N);
    let (ru, du) = root(&p, u);
    let (rv, _) = root(&p, v);
    let op: u8 = kani::any();
    kani::assume(op < 3);
    if op == 0 {
        let r = d.par(u);
        assert!(r == ru, "par = the representative (a member, the same for all members of the component)");
    } else if op == 1 {
        assert!(d.check(u, v) == (ru == rv), "check <=> same component");
    } else {
        assert!(d.size(u) == class_size(&p, ru), "size = cardinality of the component");
    }
    let (p2, s2) = raw::<N>(&d);
    assert!(inv(&p2, &s2), "J re-established after a lookup (path compression)");
    // lookups do not change the partition nor the representatives
    let x: usize = kani::any();
    kani::assume(x < N);
    assert!(root(&p2, x).0 == root(&p, x).0, "representative unchanged until the next union");
    kani::cover!(N < 4 || du >= 2, "lookup from depth 2 (N >= 4)");
    core::mem::forget(d);
}

fn reset_clone<const N: usize, const M: usize>() {
    let (p, sz, mut d) = any_state::<N>();
    let c = d.clone();
    let (pc, sc) = raw::<N>(&c);
    let mut i = 0;
    while i < N {
        assert!(pc[i] == p[i] && sc[i] == sz[i], "clone has equal arrays");
        i += 1;
    }
    d.reset(M);
    let (p2, s2) = d.verif_raw();
    assert!(p2.len() == M && s2.len() == M, "reset resizes");
    let mut i = 0;
    while i < M {
        assert!(p2[i] == i && s2[i] == 1, "reset gives the identity forest with unit sizes");
        i += 1;
    }
    // the clone is unaffected
    let (pc, _) = raw::<N>(&c);
    let mut i = 0;
    while i < N {
        assert!(pc[i] == p[i]);
        i += 1;
    }
    core::mem::forget(d);
    core::mem::forget(c);
}

fn new_ok<const N: usize>() {
    let d = DSU::new(N);
    let (p, s) = raw::<N>(&d);
    assert!(inv(&p, &s));
    let mut i = 0;
    while i < N {
        assert!(p[i] == i && s[i] == 1);
        i += 1;
    }
    core::mem::forget(d);
}

macro_rules! per_n {
    ($n:expr, $un:ident, $q:ident, $unw:expr) => {
        #[kani::proof]
        #[kani::unwind($unw)]
        fn $un() { un_step::<$n>(); }
        #[kani::proof]
        #[kani::unwind($unw)]
        fn $q() { query_step::<$n>(); }
    };
}
per_n!(3, c05_un_n3, c05_query_n3, 6);
per_n!(4, c05_un_n4, c05_query_n4, 7);
per_n!(5, c05_un_n5, c05_query_n5, 8);
per_n!(6, c05_un_n6, c05_query_n6, 9);

#[kani::proof]
#[kani::unwind(9)]
fn c05_reset_shrink() { reset_clone::<4, 2>(); }
#[kani::proof]
#[kani::unwind(9)]
fn c05_reset_same() { reset_clone::<3, 3>(); }
#[kani::proof]
#[kani::unwind(9)]
fn c05_reset_grow() { reset_clone::<3, 6>(); }
#[kani::proof]
#[kani::unwind(9)]
fn c05_reset_zero() { reset_clone::<3, 0>(); }
#[kani::proof]
#[kani::unwind(9)]
fn c05_new() { new_ok::<5>(); new_ok::<1>(); }

#[kani::proof]
#[kani::unwind(7)]
fn c05_twin_false() {
    let (p, _sz, mut d) = any_state::<4>();
    let u: usize = kani::any();
    kani::assume(u < 4);
    let r = d.par(u);
    assert!(r == u || p[u] == r && p[r] == r && r != 3, "twin: deliberately false");
    core::mem::forget(d);
}
