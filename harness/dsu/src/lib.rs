#![allow(dead_code, unused_assignments)]
//! C05 — DSU tracks connectivity and sizes and stays log-depth. Inductive step from an arbitrary forest satisfying
//! J: `p` is a forest over 0..n; sz[root] = number of members; depth(x) <= floor(log2 sz[root(x)]).
#[cfg(kani)]
mod proofs;
