//! native side of C13: vh_sievereplay <N> <n>  -> min_prime, is_prime, primes, factorisation from the real crate
use rlib_sieve::Sieve;
fn main() {
    let a: Vec<String> = std::env::args().collect();
    let n_lim: usize = a[1].parse().unwrap();
    let n: i32 = a[2].parse().unwrap();
    let r = std::panic::catch_unwind(|| {
        let s = Sieve::new(n_lim);
        let mp = if n >= 0 && (n as usize) <= n_lim { s.min_prime(n) } else { -1 };
        let ip = if n >= 0 && (n as usize) <= n_lim { s.is_prime(n) } else { false };
        println!("min_prime={}", mp);
        println!("is_prime={}", ip);
        println!("primes={}", s.primes().iter().map(|p| p.to_string()).collect::<Vec<_>>().join(","));
        if n >= 1 {
            println!("factorize={}", s.factorize(n).map(|(p, e)| format!("{}^{}", p, e)).collect::<Vec<_>>().join("*"));
        }
    });
    if r.is_err() {
        println!("PANIC");
    }
}
