//! C16 (priority source): lemmas over the public generator API that the treap draws its priorities from
//! (treap_node.rs: `RNG.next_raw() as u32` on an `Rng` seeded with 42).
use rlib_rand::Rng;

/// existential goals over all 64-bit generator states: every order pattern of three consecutive priorities is
/// reachable (a constant or a counter fails), the top bit and both halves vary (a masked source fails)
#[kani::proof]
fn c16_priority_source() {
    let s: u64 = kani::any();
    let mut g = Rng::from_seed(s);
    let a = g.next_raw() as u32;
    let b = g.next_raw() as u32;
    let c = g.next_raw() as u32;
    kani::cover!(a < b && b < c, "ascending triple reachable");
    kani::cover!(a > b && b > c, "descending triple reachable");
    kani::cover!(a < b && b > c, "peak reachable");
    kani::cover!(a > b && b < c, "valley reachable");
    kani::cover!(a >> 31 == 1 && b >> 31 == 0, "top bit varies");
    kani::cover!(a & 1 == b & 1 && b & 1 == c & 1, "low bit does not simply alternate");
    kani::cover!((a ^ b) & 0xffff_0000 != 0 && (a ^ b) & 0x0000_ffff != 0, "both halves vary");
}

/// the treap's own (private) priority source, observed through TreapNode::new: the first nodes of a process get
/// priorities that are pairwise distinct, not monotone, and use the whole 32-bit range (concrete: seed 42)
#[kani::proof]
#[kani::unwind(12)]
fn c16_node_priorities() {
    let mut p = [0u64; 8]; // width-agnostic: the priority type is the library's business, its 32 generator bits are not
    let mut i = 0;
    while i < 8 {
        let n = rlib_treap::TreapNode::new(0u8);
        p[i] = n.priority as u64;
        i += 1;
    }
    let (mut asc, mut desc, mut hi, mut lo) = (0, 0, 0, 0);
    let mut i = 0;
    while i < 8 {
        let mut j = i + 1;
        while j < 8 {
            assert!(p[i] != p[j], "node priorities are pairwise distinct");
            j += 1;
        }
        if i > 0 && p[i - 1] < p[i] { asc += 1; }
        if i > 0 && p[i - 1] > p[i] { desc += 1; }
        if (p[i] >> 31) & 1 == 1 { hi += 1; } else { lo += 1; }
        i += 1;
    }
    assert!(asc >= 1 && desc >= 1, "priorities are not monotone");
    assert!(hi >= 1 && lo >= 1, "priorities use bit 31 (at least 32 bits of the generator reach the priority)");
}
