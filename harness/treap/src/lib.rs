#![allow(dead_code, unused_assignments, unused_macros)]
//! C03 / C16 — treap as a sequence with lazy updates; heap order. Idiom: enumerated skeleton (shape, weak order of
//! priorities, positions: concrete control flow) x symbolic data (letters, pending modifiers: decided by the solver).
use rlib_treap::*;

#[derive(Clone, Copy, PartialEq, Eq, Debug)]
pub struct Md {
    pub assign: bool,
    pub c: u8,
}
impl Md {
    pub const ID: Md = Md { assign: false, c: 0 };
    pub fn apply1(self, x: u8) -> u8 {
        if self.assign { self.c & 15 } else { (x + self.c) & 15 }
    }
    pub fn then(self, o: Md) -> Md {
        if o.assign { o } else { Md { assign: self.assign, c: (self.c + o.c) & 15 } }
    }
}
const ONES: u64 = 0x1111_1111_1111_1111;
pub fn mask(len: usize) -> u64 {
    if len >= 16 { u64::MAX } else { (1u64 << (4 * len as u32)) - 1 }
}
pub fn map_all(v: u64, len: usize, m: Md) -> u64 {
    let c = (m.c & 15) as u64 * ONES;
    let x = if m.assign { 0 } else { v };
    (((x & (ONES * 7)) + (c & (ONES * 7))) ^ ((x ^ c) & (ONES * 8))) & mask(len)
}
pub fn nib(v: u64, i: usize) -> u8 {
    ((v >> (4 * i)) & 15) as u8
}

/// free-monoid treap item: own letter x, aggregate = packed in-order sequence of the subtree, pending Add|Assign modifier
pub struct It {
    pub x: u8,
    pub agg: u64,
    pub sz: usize,
    pub md: Md,
    /// concrete in-order index in the pre-state (lets a split_by predicate be prefix-monotone with concrete outcomes)
    pub tag: usize,
}
impl It {
    pub fn new(x: u8) -> Self {
        It { x: x & 15, agg: (x & 15) as u64, sz: 1, md: Md::ID, tag: 0 }
    }
    pub fn modify(&mut self, m: Md) {
        self.x = m.apply1(self.x);
        self.agg = map_all(self.agg, self.sz, m);
        self.md = self.md.then(m);
    }
}
impl TreapItem for It {
    fn update(&mut self, l: Option<&Self>, r: Option<&Self>) {
        let (la, ls) = l.map(|i| (i.agg, i.sz)).unwrap_or((0, 0));
        let (ra, rs) = r.map(|i| (i.agg, i.sz)).unwrap_or((0, 0));
        let mut a = la | ((self.x as u64) << (4 * ls as u32));
        let sh = 4 * (ls as u32 + 1);
        if sh < 64 {
            a |= ra << sh;
        }
        self.agg = a;
        self.sz = ls + rs + 1;
    }
    fn push(&mut self, l: Option<&mut Self>, r: Option<&mut Self>) {
        if let Some(l) = l {
            l.modify(self.md);
        }
        if let Some(r) = r {
            r.modify(self.md);
        }
        self.md = Md::ID;
    }
}
impl TreapItemSized for It {
    fn size(&self) -> usize {
        self.sz
    }
}

#[cfg(kani)]
pub mod rt {
    use super::*;
    pub type Link = Option<Box<TreapNode<It>>>;

    pub fn any_md() -> Md {
        let c: u8 = kani::any();
        kani::assume(c < 16);
        Md { assign: kani::any(), c }
    }
    pub fn any_letter() -> u8 {
        let x: u8 = kani::any();
        kani::assume(x < 16);
        x
    }

    /// pre-state: concrete shape (preorder list of (has_left, has_right)) and concrete priorities (one representative of a
    /// weak order consistent with the heap condition); symbolic letter and symbolic pending modifier on EVERY node.
    /// Each node is finished bottom-up with the real update(). Returns (tree, model sequence, length).
    pub fn build(shape: &[(bool, bool)], pris: &[u32], idx: &mut usize) -> (Link, u64, usize) {
        build_at(shape, pris, idx, 0)
    }

    pub fn build_at(shape: &[(bool, bool)], pris: &[u32], idx: &mut usize, off: usize) -> (Link, u64, usize) {
        let (hl, hr) = shape[*idx];
        let pri = pris[*idx];
        *idx += 1;
        let (l, lseq, ll) = if hl { build_at(shape, pris, idx, off) } else { (None, 0, 0) };
        let (r, rseq, rl) = if hr { build_at(shape, pris, idx, off + ll + 1) } else { (None, 0, 0) };
        let x = any_letter();
        let mut it = It::new(x);
        it.tag = off + ll;
        let mut node = Box::new(TreapNode { item: it, priority: pri as _, left: l, right: r }); // `as _`: whatever integer type the library uses for priorities
        node.update();
        let mut seq = lseq | ((x as u64) << (4 * ll as u32)) | (rseq << (4 * (ll as u32 + 1)));
        let len = ll + rl + 1;
        let m = any_md();
        node.item.modify(m);
        seq = map_all(seq, len, m);
        (Some(node), seq, len)
    }

    pub fn build_tree(shape: &[(bool, bool)], pris: &[u32]) -> (Treap<It>, u64, usize) {
        if shape.is_empty() {
            return (Treap { root: None }, 0, 0);
        }
        let mut idx = 0;
        let (root, seq, len) = build(shape, pris, &mut idx);
        (Treap { root }, seq, len)
    }

    /// heap order, consistently parent <= child over the whole tree (C16)
    pub fn heap_ok(t: &Link, min_pri: u64, depth: usize) -> bool {
        match t {
            None => true,
            Some(n) => depth > 0 && n.priority as u64 >= min_pri && heap_ok(&n.left, n.priority as u64, depth - 1) && heap_ok(&n.right, n.priority as u64, depth - 1),
        }
    }

    pub fn seq_of(t: &mut Treap<It>) -> (u64, usize) {
        let v = t.collect();
        let mut s = 0u64;
        let mut i = 0;
        while i < v.len() {
            s |= (v[i].x as u64) << (4 * i as u32);
            i += 1;
        }
        let n = v.len();
        core::mem::forget(v);
        (s, n)
    }

    /// a treap represents exactly `seq` (length `len`): size, root aggregate, heap order, collected letters
    pub fn check_tree(t: &mut Treap<It>, seq: u64, len: usize) {
        assert!(t.size() == len, "size agrees with the model");
        assert!(t.is_empty() == (len == 0));
        assert!(heap_ok(&t.root, 0, 8), "heap order on every parent-child edge");
        if let Some(r) = t.root() {
            assert!(r.agg == seq, "root aggregate = fold of exactly this subsequence");
            assert!(r.sz == len);
        }
        let (s, n) = seq_of(t);
        assert!(n == len, "collect: length");
        assert!(s == seq, "collect: the sequence, every pending modifier applied exactly once to exactly its subtree");
    }

    pub fn sub(seq: u64, from: usize, len: usize) -> u64 {
        if len == 0 { 0 } else { (seq >> (4 * from as u32)) & mask(len) }
    }

    pub fn inst_split(shape: &[(bool, bool)], pris: &[u32], pos: usize) {
        let (t, seq, len) = build_tree(shape, pris);
        let (mut a, mut b) = t.split_at(pos);
        check_tree(&mut a, sub(seq, 0, pos), pos);
        check_tree(&mut b, sub(seq, pos, len - pos), len - pos);
        let mut m = Treap::merge(a, b);
        check_tree(&mut m, seq, len);
        core::mem::forget(m);
    }

    /// split without looking at the parts first (pending modifiers still inside), swap, merge: rotation
    pub fn inst_rotate(shape: &[(bool, bool)], pris: &[u32], pos: usize) {
        let (t, seq, len) = build_tree(shape, pris);
        let (a, b) = t.split_at(pos);
        assert!(a.size() == pos && b.size() == len - pos);
        let mut m = Treap::merge(b, a);
        let rot = sub(seq, pos, len - pos) | (sub(seq, 0, pos) << (4 * (len - pos) as u32));
        check_tree(&mut m, rot & mask(len), len);
        core::mem::forget(m);
    }

    pub fn inst_merge(sa: &[(bool, bool)], pa: &[u32], sb: &[(bool, bool)], pb: &[u32]) {
        let (a, seqa, la) = build_tree(sa, pa);
        let (b, seqb, lb) = build_tree(sb, pb);
        let mut m = Treap::merge(a, b);
        check_tree(&mut m, seqa | (seqb << (4 * la as u32)), la + lb);
        core::mem::forget(m);
    }

    /// split by a prefix-monotone predicate ("in-order index < cut") for every cut; the predicate also checks that the
    /// item it is shown has had every pending modifier of its ancestors applied (its letter is the model's letter)
    pub fn inst_split_by(shape: &[(bool, bool)], pris: &[u32], cut: usize) {
        let (t, seq, len) = build_tree(shape, pris);
        let (mut a, mut b) = t.split_by(|it: &It| {
            assert!(it.x == nib(seq, it.tag), "split_by: the predicate sees the element with pending modifications applied");
            it.tag < cut
        });
        check_tree(&mut a, sub(seq, 0, cut), cut);
        check_tree(&mut b, sub(seq, cut, len - cut), len - cut);
        core::mem::forget(a);
        core::mem::forget(b);
    }

    pub fn inst_insert(shape: &[(bool, bool)], pris: &[u32], pos: usize) {
        let (mut t, seq, len) = build_tree(shape, pris);
        let x = any_letter();
        t.insert_at(pos, It::new(x));
        let exp = sub(seq, 0, pos) | ((x as u64) << (4 * pos as u32)) | (sub(seq, pos, len - pos) << (4 * (pos as u32 + 1)));
        check_tree(&mut t, exp, len + 1);
        core::mem::forget(t);
    }

    pub fn inst_remove(shape: &[(bool, bool)], pris: &[u32], pos: usize) {
        let (mut t, seq, len) = build_tree(shape, pris);
        let it = t.remove_at(pos);
        assert!(it.x == nib(seq, pos), "remove_at returns the element at that position");
        let exp = sub(seq, 0, pos) | (sub(seq, pos + 1, len - pos - 1) << (4 * pos as u32));
        check_tree(&mut t, exp, len - 1);
        core::mem::forget(it);
        core::mem::forget(t);
    }

    pub fn inst_ends(shape: &[(bool, bool)], pris: &[u32]) {
        let (mut t, seq, len) = build_tree(shape, pris);
        match t.first() {
            Some(f) => { assert!(len > 0 && f.x == nib(seq, 0), "first = first element"); }
            None => { assert!(len == 0); }
        }
        match t.last() {
            Some(l) => { assert!(len > 0 && l.x == nib(seq, len - 1), "last = last element"); }
            None => { assert!(len == 0); }
        }
        check_tree(&mut t, seq, len);
        core::mem::forget(t);
    }

    /// the test-suite idiom: split out [l, r], attach a modifier to the middle root, merge back
    pub fn inst_range_modify(shape: &[(bool, bool)], pris: &[u32], l: usize, r: usize) {
        let (t, seq, len) = build_tree(shape, pris);
        let (a, bc) = t.split_at(l);
        let (mut b, c) = bc.split_at(r - l + 1);
        let m = any_md();
        assert!(b.size() == r - l + 1);
        assert!(b.root().unwrap().agg == sub(seq, l, r - l + 1), "range aggregate before the modification");
        b.root_mut().unwrap().modify(m);
        let mut all = Treap::merge(Treap::merge(a, b), c);
        let mid = map_all(sub(seq, l, r - l + 1), r - l + 1, m);
        let exp = sub(seq, 0, l) | (mid << (4 * l as u32)) | (sub(seq, r + 1, len - r - 1) << (4 * (r as u32 + 1)));
        check_tree(&mut all, exp, len);
        core::mem::forget(all);
    }

    pub fn grp_split(shape: &[(bool, bool)], pris: &[u32]) {
        let len = shape.len();
        let mut pos = 0;
        while pos <= len {
            inst_split(shape, pris, pos);
            inst_rotate(shape, pris, pos);
            pos += 1;
        }
    }

    pub fn grp_insert(shape: &[(bool, bool)], pris: &[u32], hi: &[u32]) {
        let len = shape.len();
        let mut pos = 0;
        while pos <= len {
            inst_insert(shape, pris, pos); // new node's priority (from the real generator) is above every skeleton priority
            inst_insert(shape, hi, pos); // ... and below every skeleton priority (becomes the root)
            pos += 1;
        }
    }

    pub fn grp_remove(shape: &[(bool, bool)], pris: &[u32]) {
        let len = shape.len();
        let mut pos = 0;
        while pos < len {
            inst_remove(shape, pris, pos);
            pos += 1;
        }
        let mut cut = 0;
        while cut <= len {
            inst_split_by(shape, pris, cut);
            cut += 1;
        }
        inst_ends(shape, pris);
    }

    pub fn grp_range(shape: &[(bool, bool)], pris: &[u32]) {
        let len = shape.len();
        let mut l = 0;
        while l < len {
            let mut r = l;
            while r < len {
                inst_range_modify(shape, pris, l, r);
                r += 1;
            }
            l += 1;
        }
    }
}

#[cfg(kani)]
mod gen;
#[cfg(kani)]
mod prio;
