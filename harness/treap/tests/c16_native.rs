//! native probe (replay for the existential C16 obligation): sample seeds against the real generator
use rlib_rand::Rng;
#[test]
fn priority_source() {
    let mut g = [false; 7];
    for s in (0..200_000u64).flat_map(|i| [i, i.wrapping_mul(0x9E37_79B9_7F4A_7C15), !i]) {
        let mut r = Rng::from_seed(s);
        let (a, b, c) = (r.next_raw() as u32, r.next_raw() as u32, r.next_raw() as u32);
        g[0] |= a < b && b < c;
        g[1] |= a > b && b > c;
        g[2] |= a < b && b > c;
        g[3] |= a > b && b < c;
        g[4] |= a >> 31 == 1 && b >> 31 == 0;
        g[5] |= a & 1 == b & 1 && b & 1 == c & 1;
        g[6] |= (a ^ b) & 0xffff_0000 != 0 && (a ^ b) & 0x0000_ffff != 0;
    }
    assert!(g.iter().all(|x| *x), "goals reached = {:?}", g);
}
