//! native replay for C12 (rendering): `vh_bitsetreplay <N> <word0_hex> [<word1_hex> ...]` prints the Display and Debug text
//! of the bitset with exactly those words (built through from_u64 + set).
use rlib_bitset::Bitset;

fn run<const N: usize>(w: &[u64]) {
    let mut b = Bitset::<N>::from_u64(w[0]);
    for k in 1..N {
        for j in 0..64 {
            if (w[k] >> j) & 1 == 1 {
                b.set(64 * k + j);
            }
        }
    }
    println!("display={}", b);
    println!("debug={:?}", b);
}

fn main() {
    let a: Vec<String> = std::env::args().skip(1).collect();
    let n: usize = a[0].parse().unwrap();
    let w: Vec<u64> = a[1..].iter().map(|s| u64::from_str_radix(s, 16).unwrap()).collect();
    assert_eq!(w.len(), n);
    match n {
        1 => run::<1>(&w),
        2 => run::<2>(&w),
        3 => run::<3>(&w),
        4 => run::<4>(&w),
        8 => run::<8>(&w),
        16 => run::<16>(&w),
        17 => run::<17>(&w),
        _ => panic!("N not instantiated in the replay binary"),
    }
}
