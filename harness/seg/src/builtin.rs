//! C01 (built-in items): Min/Max/Sum and their range-add variants, and the nested pair combinator, against plain folds.
use crate::c01::nodes;
use rlib_segtree::segtree_items::*;
use rlib_segtree::{Segtree, SegtreeItem};

/// i8 (8-bit adders keep the arithmetic equivalences tractable for SAT) with a multiplication that is cheap for the solver when one factor is a small count (SumAdd multiplies the
/// modifier by the segment length): 4 conditional shifted additions instead of a 16x16 multiplier circuit.
#[derive(Clone, Copy, Debug, Default, PartialEq, Eq, PartialOrd, Ord)]
pub struct W(pub i8);
impl std::ops::Add for W {
    type Output = W;
    fn add(self, o: W) -> W { W(self.0 + o.0) }
}
impl std::ops::AddAssign for W {
    fn add_assign(&mut self, o: W) { self.0 += o.0; }
}
impl std::ops::Mul for W {
    type Output = W;
    fn mul(self, o: W) -> W {
        let (big, small) = if o.0 >= 0 && o.0 < 16 { (self.0, o.0) } else { (o.0, self.0) };
        assert!(small >= 0 && small < 16, "harness numeric type: one factor is a small count");
        let mut r = 0i8;
        if small & 1 != 0 { r += big; }
        if small & 2 != 0 { r += big * 2; }
        if small & 4 != 0 { r += big * 4; }
        if small & 8 != 0 { r += big * 8; }
        W(r)
    }
}
impl rlib_num_traits::ZeroOne for W {
    const ZERO: W = W(0);
    const ONE: W = W(1);
}
impl rlib_num_traits::MinMax for W {
    const MIN: W = W(i8::MIN);
    const MAX: W = W(i8::MAX);
}

fn any_vals<const N: usize>(b: i16) -> [i16; N] {
    let a: [i16; N] = kani::any();
    let mut i = 0;
    while i < N {
        kani::assume(a[i] >= -b && a[i] <= b);
        i += 1;
    }
    a
}

fn fold(model: &[i16], l: usize, r: usize) -> (i16, i16, i16) {
    let (mut mn, mut mx, mut sm) = (i16::MAX, i16::MIN, 0i16);
    let mut i = 0;
    while i < model.len() {
        if l <= i && i <= r {
            if model[i] < mn { mn = model[i]; }
            if model[i] > mx { mx = model[i]; }
            sm += model[i];
        }
        i += 1;
    }
    (mn, mx, sm)
}

/// lazy builder for an item with modifier i16 (range add): every node gets a symbolic pending add
fn build_lazy<const N: usize, T: SegtreeItem<W> + Clone + From<W>>(model: &mut [i16; N]) -> Segtree<T, W> {
    let init = any_vals::<N>(3);
    *model = init;
    let items: [T; N] = core::array::from_fn(|i| T::from(W(init[i] as i8)));
    let mut t = Segtree::<T, W>::from_slice(&items);
    let (ns, cnt) = nodes::<N>();
    let mut depth = 5;
    loop {
        let mut i = 0;
        while i < cnt {
            let (_, l, r, d) = ns[i];
            if d == depth {
                let a: i16 = kani::any();
                kani::assume(a >= -2 && a <= 2);
                t.modify(l, r, &W(a as i8));
                let mut k = l;
                while k <= r {
                    model[k] += a;
                    k += 1;
                }
            }
            i += 1;
        }
        if depth == 0 { break; }
        depth -= 1;
    }
    t
}

fn step_lazy<const N: usize, T: SegtreeItem<W> + Clone + From<W>>(t: &mut Segtree<T, W>, model: &mut [i16; N], l: usize, r: usize) {
    let op: u8 = kani::any();
    kani::assume(op < 3);
    if op == 0 {
        let a: i16 = kani::any();
        kani::assume(a >= -2 && a <= 2);
        t.modify(l, r, &W(a as i8));
        let mut i = 0;
        while i < N {
            if l <= i && i <= r { model[i] += a; }
            i += 1;
        }
    } else if op == 1 {
        let x: i16 = kani::any();
        kani::assume(x >= -3 && x <= 3);
        t.set(l, T::from(W(x as i8)));
        model[l] = x;
    } else {
        let _ = t.ask(l, r);
    }
}

type Nest = Combinator<SumAdd<W>, Combinator<MinAdd<W>, MaxAdd<W>>>;

macro_rules! lazy_item {
    ($name:ident, $n:expr, $ty:ty, $sel:expr) => {
        #[kani::proof]
        #[kani::unwind(34)]
        fn $name() {
            // concrete ranges (every pair for the step; the query range cycles through all pairs as well)
            let sel: fn(&$ty, (i16, i16, i16)) -> bool = $sel;
            let mut l = 0;
            while l < $n {
                let mut r = l;
                while r < $n {
                    let mut model = [0i16; $n];
                    let mut t = build_lazy::<$n, $ty>(&mut model);
                    step_lazy::<$n, $ty>(&mut t, &mut model, l, r);
                    let (ql, qr) = (($n - 1 - r), ($n - 1 - l));
                    let got = t.ask(ql, qr);
                    assert!(sel(&got, fold(&model, ql, qr)), "built-in lazy item: ask = fold of the logical array");
                    let got = t.ask(0, $n - 1);
                    assert!(sel(&got, fold(&model, 0, $n - 1)), "built-in lazy item: ask over everything");
                    core::mem::forget(t);
                    r += 1;
                }
                l += 1;
            }
        }
    };
}
lazy_item!(c01_minadd_n3, 3, MinAdd<W>, |g, f| g.v.0 as i16 == f.0);
lazy_item!(c01_maxadd_n3, 3, MaxAdd<W>, |g, f| g.v.0 as i16 == f.1);
lazy_item!(c01_sumadd_n3, 3, SumAdd<W>, |g, f| g.v.0 as i16 == f.2);
lazy_item!(c01_sumadd_n4, 4, SumAdd<W>, |g, f| g.v.0 as i16 == f.2);
lazy_item!(c01_combinator_n3, 3, Nest, |g, f| g.0.v.0 as i16 == f.2 && (g.1).0.v.0 as i16 == f.0 && (g.1).1.v.0 as i16 == f.1);
lazy_item!(c01_minadd_n5, 5, MinAdd<W>, |g, f| g.v.0 as i16 == f.0);
lazy_item!(c01_maxadd_n5, 5, MaxAdd<W>, |g, f| g.v.0 as i16 == f.1);
lazy_item!(c01_sumadd_n5, 5, SumAdd<W>, |g, f| g.v.0 as i16 == f.2);
lazy_item!(c01_minadd_n8, 8, MinAdd<W>, |g, f| g.v.0 as i16 == f.0);
lazy_item!(c01_maxadd_n8, 8, MaxAdd<W>, |g, f| g.v.0 as i16 == f.1);
lazy_item!(c01_sumadd_n8, 8, SumAdd<W>, |g, f| g.v.0 as i16 == f.2);
lazy_item!(c01_combinator_n5, 5, Nest, |g, f| g.0.v.0 as i16 == f.2 && (g.1).0.v.0 as i16 == f.0 && (g.1).1.v.0 as i16 == f.1);
lazy_item!(c01_combinator_n7, 7, Nest, |g, f| g.0.v.0 as i16 == f.2 && (g.1).0.v.0 as i16 == f.0 && (g.1).1.v.0 as i16 == f.1);

macro_rules! plain_item {
    ($name:ident, $n:expr, $ty:ty, $sel:expr) => {
        #[kani::proof]
        #[kani::unwind(34)]
        fn $name() {
            let mut model = any_vals::<$n>(100);
            let items: [$ty; $n] = core::array::from_fn(|i| <$ty>::from(model[i]));
            let mut t = Segtree::<$ty, ()>::from_slice(&items);
            // two steps: set / ask / (no-op) modify at concrete positions derived from a symbolic selector
            let mut k = 0;
            while k < 2 {
                let op: u8 = kani::any();
                kani::assume(op < 3);
                let (l, r) = if k == 0 { (1, $n - 2) } else { (0, $n / 2) };
                if op == 0 {
                    let x: i16 = kani::any();
                    kani::assume(x >= -100 && x <= 100);
                    t.set(l, <$ty>::from(x));
                    model[l] = x;
                } else if op == 1 {
                    let _ = t.ask(l, r);
                } else {
                    t.modify(l, r, &());
                }
                k += 1;
            }
            let sel: fn(&$ty, (i16, i16, i16)) -> bool = $sel;
            let mut l = 0;
            while l < $n {
                let mut r = l;
                while r < $n {
                    let got = t.ask(l, r);
                    assert!(sel(&got, fold(&model, l, r)), "built-in item: ask = fold of the logical array");
                    r += 1;
                }
                l += 1;
            }
            core::mem::forget(t);
        }
    };
}
plain_item!(c01_min_n6, 6, Min<i16>, |g, f| g.v == f.0);
plain_item!(c01_max_n6, 6, Max<i16>, |g, f| g.v == f.1);
plain_item!(c01_sum_n6, 6, Sum<i16>, |g, f| g.v == f.2);

/// constructors given elements that already carry a non-zero pending add (obtainable through ask(i, i) on another tree):
/// the pending add of a leaf element has nothing below it, so the logical array is the values as given
macro_rules! ctor_md {
    ($name:ident, $n:expr, $mk:expr, $sel:expr, $ty:ty) => {
        #[kani::proof]
        #[kani::unwind(34)]
        fn $name() {
            let vals = any_vals::<$n>(3);
            let mds = any_vals::<$n>(2);
            let mk: fn(i8, i8) -> $ty = $mk;
            let items: [$ty; $n] = core::array::from_fn(|i| mk(vals[i] as i8, mds[i] as i8));
            let fill: bool = kani::any();
            let mut model = vals;
            let mut t = if fill {
                model = [vals[0]; $n];
                Segtree::<$ty, W>::new($n, items[0].clone())
            } else {
                Segtree::<$ty, W>::from_slice(&items)
            };
            let sel: fn(&$ty, (i16, i16, i16)) -> bool = $sel;
            let mut l = 0;
            while l < $n {
                let mut r = l;
                while r < $n {
                    let got = t.ask(l, r);
                    assert!(sel(&got, fold(&model, l, r)), "constructor from elements with a pending add: ask = fold of the values");
                    r += 1;
                }
                l += 1;
            }
            kani::cover!(fill && mds[0] != 0);
            kani::cover!(!fill && mds[0] != 0 && mds[$n - 1] != 0);
            core::mem::forget(t);
        }
    };
}
ctor_md!(c01_minadd_ctor_md, 3, |v, m| MinAdd { v: W(v), md: W(m) }, |g, f| g.v.0 as i16 == f.0, MinAdd<W>);
ctor_md!(c01_maxadd_ctor_md, 3, |v, m| MaxAdd { v: W(v), md: W(m) }, |g, f| g.v.0 as i16 == f.1, MaxAdd<W>);
ctor_md!(c01_sumadd_ctor_md, 3, |v, m| SumAdd { v: W(v), len: W(1), md: W(m) }, |g, f| g.v.0 as i16 == f.2, SumAdd<W>);
