//! C02 — boundary search returns the exact first/last satisfying index; the aggregate shown to the predicate is the
//! in-order merge of precisely the candidate range, unaffected by pending modifications.
use crate::c01::*;
use crate::free::*;
use rlib_segtree::segtree_items::SumAdd;
use rlib_segtree::Segtree;

fn pred_model(kind: u8, k: u8, c: u8, letters: &[u8], len: usize) -> bool {
    match kind {
        0 => len >= k as usize,
        1 => {
            let mut hit = false;
            let mut i = 0;
            while i < letters.len() {
                if i < len && letters[i] == c {
                    hit = true;
                }
                i += 1;
            }
            hit
        }
        2 => true,
        _ => false,
    }
}

fn pred_item(kind: u8, k: u8, c: u8, s: &Seq) -> bool {
    match kind {
        0 => s.len >= k,
        1 => {
            let mut hit = false;
            let mut i = 0;
            while i < 16 {
                if i < s.len as usize && nib(s.v, i) == c {
                    hit = true;
                }
                i += 1;
            }
            hit
        }
        2 => true,
        _ => false,
    }
}

fn forward<const N: usize>() {
    let mut model = [0u8; N];
    let mut t = build::<N>(&mut model);
    let l: usize = kani::any();
    kani::assume(l < N);
    let kind: u8 = kani::any();
    let k: u8 = kani::any();
    let c: u8 = kani::any();
    kani::assume(kind < 4 && k <= 9 && c < 16);
    let m = model;
    let got = t.lower_bound(l, |s: &Seq| {
        assert!(s.len >= 1 && s.len as usize <= N - l, "forward search: the aggregate covers a range starting at l");
        let mut i = 0;
        while i < N {
            if i < s.len as usize {
                assert!(nib(s.v, i) == m[l + i], "forward search: aggregate = in-order merge of exactly [l, l+len)");
            }
            i += 1;
        }
        pred_item(kind, k, c, s)
    });
    // expected: smallest r >= l whose range [l, r] satisfies the predicate
    let mut exp: Option<usize> = None;
    let mut r = N;
    while r > l {
        r -= 1;
        // letters of [l, r]
        let mut letters = [0u8; N];
        let mut i = 0;
        while i < N {
            if l + i <= r {
                letters[i] = m[l + i];
            }
            i += 1;
        }
        if pred_model(kind, k, c, &letters, r - l + 1) {
            exp = Some(r);
        }
    }
    assert!(got == exp, "forward search returns the smallest satisfying r, or none");
    check_state::<N>(&t, &model);
    kani::cover!(N <= 2 || (kind == 1 && got == Some(N - 1) && l == 0), "found at the last index by letter");
    kani::cover!(kind == 0 && got.is_none(), "none: predicate never true");
    kani::cover!(N < 3 || (kind == 1 && l > 0 && got == Some(l + 1)), "found strictly inside");
    core::mem::forget(t);
}

fn backward<const N: usize>() {
    let mut model = [0u8; N];
    let mut t = build::<N>(&mut model);
    let r: usize = kani::any();
    kani::assume(r < N);
    let kind: u8 = kani::any();
    let k: u8 = kani::any();
    let c: u8 = kani::any();
    kani::assume(kind < 4 && k <= 9 && c < 16);
    let m = model;
    let got = t.lower_bound_rev(r, |s: &Seq| {
        assert!(s.len >= 1 && s.len as usize <= r + 1, "backward search: the aggregate covers a range ending at r");
        let start = r + 1 - s.len as usize;
        let mut i = 0;
        while i < N {
            if i < s.len as usize {
                assert!(nib(s.v, i) == m[start + i], "backward search: aggregate = in-order merge of exactly (r-len, r]");
            }
            i += 1;
        }
        pred_item(kind, k, c, s)
    });
    let mut exp: Option<usize> = None;
    let mut l = 0;
    while l <= r {
        let mut letters = [0u8; N];
        let mut i = 0;
        while i < N {
            if l + i <= r {
                letters[i] = m[l + i];
            }
            i += 1;
        }
        if pred_model(kind, k, c, &letters, r - l + 1) {
            exp = Some(l);
        }
        l += 1;
    }
    assert!(got == exp, "backward search returns the largest satisfying l, or none");
    check_state::<N>(&t, &model);
    kani::cover!(N <= 2 || (kind == 1 && got == Some(0) && r == N - 1), "found at index 0 by letter");
    kani::cover!(kind == 0 && got.is_none(), "none");
    kani::cover!(N < 3 || (kind == 1 && r + 1 < N && got.is_some() && got != Some(r)), "found strictly inside");
    core::mem::forget(t);
}

/// searches after a short history of overlapping range modifications (the second lands strictly inside a node that still
/// carries the first): results must be unaffected by what is still pending
fn after_history<const N: usize>(rev: bool) {
    let mut model = [0u8; N];
    let mut t = build::<N>(&mut model);
    let m1 = any_md();
    let m2 = any_md();
    t.modify(0, N - 1, &m1);
    let mut i = 0;
    while i < N {
        model[i] = m1.apply1(model[i]);
        i += 1;
    }
    let p = N / 2;
    t.modify(p, p, &m2);
    model[p] = m2.apply1(model[p]);
    let kind: u8 = kani::any();
    let k: u8 = kani::any();
    let c: u8 = kani::any();
    kani::assume(kind < 2 && k <= 9 && c < 16);
    let m = model;
    if !rev {
        let got = t.lower_bound(0, |s: &Seq| {
            let mut i = 0;
            while i < N {
                if i < s.len as usize {
                    assert!(nib(s.v, i) == m[i], "forward search after a history: aggregate = in-order merge of [0, len)");
                }
                i += 1;
            }
            pred_item(kind, k, c, s)
        });
        let mut exp: Option<usize> = None;
        let mut r = N;
        while r > 0 {
            r -= 1;
            if pred_model(kind, k, c, &m, r + 1) {
                exp = Some(r);
            }
        }
        assert!(got == exp, "forward search after a history of overlapping modifications");
    } else {
        let got = t.lower_bound_rev(N - 1, |s: &Seq| {
            let start = N - s.len as usize;
            let mut i = 0;
            while i < N {
                if i < s.len as usize {
                    assert!(nib(s.v, i) == m[start + i], "backward search after a history: aggregate = in-order merge of (n-len, n-1]");
                }
                i += 1;
            }
            pred_item(kind, k, c, s)
        });
        let mut exp: Option<usize> = None;
        let mut l = 0;
        while l < N {
            let mut letters = [0u8; N];
            let mut i = 0;
            while i < N {
                if l + i < N {
                    letters[i] = m[l + i];
                }
                i += 1;
            }
            if pred_model(kind, k, c, &letters, N - l) {
                exp = Some(l);
            }
            l += 1;
        }
        assert!(got == exp, "backward search after a history of overlapping modifications");
    }
    check_state::<N>(&t, &model);
    core::mem::forget(t);
}
#[kani::proof]
#[kani::unwind(34)]
fn c02_hist_fwd_n4() { after_history::<4>(false); }
#[kani::proof]
#[kani::unwind(34)]
fn c02_hist_bwd_n4() { after_history::<4>(true); }
#[kani::proof]
#[kani::unwind(34)]
fn c02_hist_fwd_n5() { after_history::<5>(false); }

macro_rules! per_n {
    ($n:expr, $f:ident, $b:ident) => {
        #[kani::proof]
        #[kani::unwind(34)]
        fn $f() { forward::<$n>(); }
        #[kani::proof]
        #[kani::unwind(34)]
        fn $b() { backward::<$n>(); }
    };
}
per_n!(1, c02_fwd_n1, c02_bwd_n1);
per_n!(2, c02_fwd_n2, c02_bwd_n2);
per_n!(3, c02_fwd_n3, c02_bwd_n3);
per_n!(4, c02_fwd_n4, c02_bwd_n4);
per_n!(5, c02_fwd_n5, c02_bwd_n5);
per_n!(6, c02_fwd_n6, c02_bwd_n6);
per_n!(7, c02_fwd_n7, c02_bwd_n7);
per_n!(8, c02_fwd_n8, c02_bwd_n8);

/// built-in SumAdd<i16> with non-negative elements and a threshold predicate, pending adds on every node
fn sumadd_threshold<const N: usize>(rev: bool) {
    let init: [i16; N] = kani::any();
    let mut model = init;
    let mut i = 0;
    while i < N {
        kani::assume(init[i] >= 0 && init[i] <= 50);
        i += 1;
    }
    let items: [SumAdd<i16>; N] = core::array::from_fn(|i| SumAdd::new(init[i]));
    let mut t = Segtree::<SumAdd<i16>, i16>::from_slice(&items);
    let (ns, cnt) = nodes::<N>();
    let mut depth = 5;
    loop {
        let mut i = 0;
        while i < cnt {
            let (_, l, r, d) = ns[i];
            if d == depth {
                let a: i16 = kani::any();
                kani::assume(a >= 0 && a <= 20);
                t.modify(l, r, &a);
                let mut k = l;
                while k <= r {
                    model[k] += a;
                    k += 1;
                }
            }
            i += 1;
        }
        if depth == 0 {
            break;
        }
        depth -= 1;
    }
    let p: usize = kani::any();
    kani::assume(p < N);
    let th: i16 = kani::any();
    kani::assume(th >= 0 && th <= 2000);
    let mut inside = false;
    if !rev {
        let got = t.lower_bound(p, |s: &SumAdd<i16>| s.v >= th);
        let mut exp: Option<usize> = None;
        let mut acc = 0i16;
        let mut r = p;
        while r < N {
            acc += model[r];
            if exp.is_none() && acc >= th {
                exp = Some(r);
            }
            r += 1;
        }
        assert!(got == exp, "SumAdd forward threshold search");
        inside = got.is_some() && got != Some(p) && got != Some(N - 1);
    } else {
        let got = t.lower_bound_rev(p, |s: &SumAdd<i16>| s.v >= th);
        let mut exp: Option<usize> = None;
        let mut acc = 0i16;
        let mut l = p + 1;
        while l > 0 {
            l -= 1;
            acc += model[l];
            if exp.is_none() && acc >= th {
                exp = Some(l);
            }
        }
        assert!(got == exp, "SumAdd backward threshold search");
        inside = got.is_some() && got != Some(p) && got != Some(0);
    }
    kani::cover!(inside || N < 3, "threshold reached strictly inside");
    core::mem::forget(t);
}
#[kani::proof]
#[kani::unwind(34)]
fn c02_sumadd_fwd_n5() { sumadd_threshold::<5>(false); }
#[kani::proof]
#[kani::unwind(34)]
fn c02_sumadd_bwd_n5() { sumadd_threshold::<5>(true); }
#[kani::proof]
#[kani::unwind(34)]
fn c02_sumadd_fwd_n8() { sumadd_threshold::<8>(false); }
#[kani::proof]
#[kani::unwind(34)]
fn c02_sumadd_bwd_n8() { sumadd_threshold::<8>(true); }

#[kani::proof]
#[kani::unwind(34)]
fn c02_twin_false() {
    let mut model = [0u8; 3];
    let mut t = build::<3>(&mut model);
    let got = t.lower_bound(0, |s: &Seq| nib(s.v, (s.len - 1) as usize) == 7);
    assert!(got != Some(2), "twin: deliberately false");
    core::mem::forget(t);
}
