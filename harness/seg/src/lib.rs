#![allow(dead_code, unused_assignments, unused_macros)]
pub mod free;
#[cfg(kani)]
mod builtin;
#[cfg(kani)]
mod c01;
#[cfg(kani)]
mod c02;
