//! Free-monoid item: the item IS the sequence it summarises (<= 16 four-bit letters packed in a u64, first letter
//! in the low nibble), so `merge` is concatenation (non-commutative) and any order/omission/duplication bug in the
//! container changes a letter. Lazy modifier: Add(c) | Assign(c) over Z/16 - the two do not commute and neither is
//! idempotent.
use rlib_segtree::SegtreeItem;

#[derive(Clone, Copy, PartialEq, Eq, Debug)]
pub struct Md {
    pub assign: bool,
    pub c: u8,
}

pub const ID: Md = Md { assign: false, c: 0 };

impl Md {
    pub fn apply1(self, x: u8) -> u8 {
        if self.assign { self.c & 15 } else { (x + self.c) & 15 }
    }
    /// self first, then o
    pub fn then(self, o: Md) -> Md {
        if o.assign { o } else { Md { assign: self.assign, c: (self.c + o.c) & 15 } }
    }
}

const ONES: u64 = 0x1111_1111_1111_1111;

pub fn mask(len: u8) -> u64 {
    if len >= 16 { u64::MAX } else { (1u64 << (4 * len as u32)) - 1 }
}

pub fn nib(v: u64, i: usize) -> u8 {
    ((v >> (4 * i)) & 15) as u8
}

/// apply a modifier to every letter of a packed sequence (nibble-parallel addition without carries across nibbles)
pub fn apply_packed(m: Md, v: u64, len: u8) -> u64 {
    let c = (m.c & 15) as u64 * ONES;
    let x = if m.assign { 0 } else { v };
    let s = ((x & (ONES * 7)) + (c & (ONES * 7))) ^ ((x ^ c) & (ONES * 8));
    s & mask(len)
}

#[derive(Clone, Copy, Debug)]
pub struct Seq {
    pub len: u8,
    pub v: u64,
    pub md: Md,
}

impl Default for Seq {
    fn default() -> Self {
        Seq { len: 0, v: 0, md: ID }
    }
}

impl Seq {
    pub fn one(x: u8) -> Self {
        Seq { len: 1, v: (x & 15) as u64, md: ID }
    }
}

impl SegtreeItem<Md> for Seq {
    fn merge(l: &Self, r: &Self) -> Self {
        let sh = 4 * (l.len as u32);
        let hi = if sh >= 64 { 0 } else { r.v << sh };
        Seq { len: l.len + r.len, v: l.v | hi, md: ID }
    }
    fn modify(&mut self, m: &Md) {
        self.v = apply_packed(*m, self.v, self.len);
        self.md = self.md.then(*m);
    }
    fn push(&mut self, l: &mut Self, r: &mut Self) {
        let m = self.md;
        l.modify(&m);
        r.modify(&m);
        self.md = ID;
    }
}
