//! C01 — segment-tree range query = in-order fold of the logical array (free-monoid item, arbitrary lazy state).
use crate::free::*;
use rlib_segtree::Segtree;

pub type Tree = Segtree<Seq, Md>;

pub fn any_md() -> Md {
    let c: u8 = kani::any();
    kani::assume(c < 16);
    Md { assign: kani::any(), c }
}

pub fn any_letters<const N: usize>() -> [u8; N] {
    let a: [u8; N] = kani::any();
    let mut i = 0;
    while i < N {
        kani::assume(a[i] < 16);
        i += 1;
    }
    a
}

/// the nodes of the implicit tree over [0, N-1]: (node index, l, r, depth), in an order where parents precede children
pub fn nodes<const N: usize>() -> ([(usize, usize, usize, usize); 32], usize) {
    let mut out = [(0usize, 0usize, 0usize, 0usize); 32];
    let mut cnt = 0;
    let mut stack = [(0usize, 0usize, 0usize, 0usize); 32];
    let mut sp = 1;
    stack[0] = (0, 0, N - 1, 0);
    while sp > 0 {
        sp -= 1;
        let (i, l, r, d) = stack[sp];
        out[cnt] = (i, l, r, d);
        cnt += 1;
        if l < r {
            let m = (l + r) / 2;
            stack[sp] = (2 * i + 1, l, m, d + 1);
            sp += 1;
            stack[sp] = (2 * i + 2, m + 1, r, d + 1);
            sp += 1;
        }
    }
    (out, cnt)
}

/// Arbitrary reachable state through the public API only: from_slice of symbolic letters, then one
/// modify(range(node), symbolic modifier) for EVERY node, deepest level first (no call pushes an earlier one down),
/// so afterwards every node carries an arbitrary pending modifier. All ranges are concrete: no branching.
pub fn build<const N: usize>(model: &mut [u8; N]) -> Tree {
    let init = any_letters::<N>();
    *model = init;
    let items: [Seq; N] = core::array::from_fn(|i| Seq::one(init[i]));
    let mut t = Tree::from_slice(&items);
    let (ns, cnt) = nodes::<N>();
    let mut depth = 5;
    loop {
        let mut i = 0;
        while i < cnt {
            let (_, l, r, d) = ns[i];
            if d == depth {
                let m = any_md();
                t.modify(l, r, &m);
                let mut k = l;
                while k <= r {
                    model[k] = m.apply1(model[k]);
                    k += 1;
                }
            }
            i += 1;
        }
        if depth == 0 {
            break;
        }
        depth -= 1;
    }
    t
}

/// representation invariant + abstraction function, on the raw node array (hook):
///  I(i): node.len = |range|, node.v = node.md-free merge of the children with the node's pending modifier already
///        applied, i.e. v(i) = apply(md(i), v(left) ++ v(right));
///  A(k): logical element k = leaf value with the pending modifiers of all its proper ancestors applied bottom-up.
pub fn check_state<const N: usize>(t: &Tree, model: &[u8; N]) {
    let (data, n) = t.verif_nodes();
    assert!(n == N);
    let (ns, cnt) = nodes::<N>();
    // pending modifier accumulated from the root down to each node (ancestors only), indexed like `ns`
    let mut acc = [ID; 32];
    let mut idx_of = [0usize; 64];
    let mut i = 0;
    while i < cnt {
        idx_of[ns[i].0] = i;
        i += 1;
    }
    let mut i = 0;
    while i < cnt {
        let (node, l, r, _) = ns[i];
        let me = &data[node];
        assert!(me.len as usize == r - l + 1, "node length");
        if l < r {
            let (a, b) = (&data[2 * node + 1], &data[2 * node + 2]);
            let sh = 4 * (a.len as u32);
            let cat = a.v | (b.v << sh);
            assert!(me.v == apply_packed(me.md, cat, me.len), "I: node aggregate = pending modifier applied to the merge of its children");
            // children inherit: child's own ancestors-pending = (child... ) first me.md then what is above me
            let down = me.md.then(acc[i]);
            acc[idx_of[2 * node + 1]] = down;
            acc[idx_of[2 * node + 2]] = down;
        } else {
            assert!(me.len == 1);
            assert!(acc[i].apply1(nib(me.v, 0)) == model[l], "A: logical element = leaf with its ancestors' pending modifiers applied");
        }
        i += 1;
    }
}

pub fn check_ask<const N: usize>(t: &mut Tree, model: &[u8; N]) {
    let l: usize = kani::any();
    let r: usize = kani::any();
    kani::assume(l <= r && r < N);
    let got = t.ask(l, r);
    assert!(got.len as usize == r - l + 1, "ask: length of the aggregate");
    let mut i = 0;
    while i < N {
        if l + i <= r {
            assert!(nib(got.v, i) == model[l + i], "ask: in-order merge of exactly the queried elements");
        }
        i += 1;
    }
    kani::cover!(l > 0 && r + 1 < N || N < 3, "interior range");
}

/// one symbolic operation on tree + model
pub fn step<const N: usize>(t: &mut Tree, model: &mut [u8; N]) {
    let op: u8 = kani::any();
    let l: usize = kani::any();
    let r: usize = kani::any();
    kani::assume(op < 5 && l <= r && r < N);
    if op == 0 {
        let m = any_md();
        t.modify(l, r, &m);
        let mut i = 0;
        while i < N {
            if l <= i && i <= r {
                model[i] = m.apply1(model[i]);
            }
            i += 1;
        }
    } else if op == 1 {
        let x: u8 = kani::any();
        kani::assume(x < 16);
        t.set(l, Seq::one(x));
        model[l] = x;
    } else if op == 2 {
        let got = t.ask(l, r);
        assert!(got.len as usize == r - l + 1);
        let mut i = 0;
        while i < N {
            if l + i <= r {
                assert!(nib(got.v, i) == model[l + i], "ask (as a step): in-order merge");
            }
            i += 1;
        }
    } else if op == 3 {
        // queries mutate the lazy state too: a search (result checked in C02)
        let k: u8 = kani::any();
        let _ = t.lower_bound(l, |s: &Seq| s.len >= k);
    } else {
        let k: u8 = kani::any();
        let _ = t.lower_bound_rev(r, |s: &Seq| s.len >= k);
    }
    kani::cover!(N < 2 || (op == 0 && l < r), "range modify step");
    kani::cover!(op == 1, "set step");
}

fn run<const N: usize, const K: usize>() {
    let mut model = [0u8; N];
    let mut t = build::<N>(&mut model);
    let mut k = 0;
    while k < K {
        step::<N>(&mut t, &mut model);
        k += 1;
    }
    check_state::<N>(&t, &model);
    check_ask::<N>(&mut t, &model);
    core::mem::forget(t);
}

/// the builder itself establishes the invariant (so `build` really yields states satisfying I and A)
fn builder_ok<const N: usize>() {
    let mut model = [0u8; N];
    let t = build::<N>(&mut model);
    check_state::<N>(&t, &model);
    let (data, _) = t.verif_nodes();
    kani::cover!(data[0].md.assign && data[0].md.c == 3, "root carries an arbitrary pending modifier");
    kani::cover!(N < 2 || (!data[1].md.assign && data[1].md.c == 5), "inner node carries an arbitrary pending modifier");
    core::mem::forget(t);
}

macro_rules! per_n {
    ($n:expr, $run1:ident, $bld:ident) => {
        #[kani::proof]
        #[kani::unwind(34)]
        fn $run1() { run::<$n, 1>(); }
        #[kani::proof]
        #[kani::unwind(34)]
        fn $bld() { builder_ok::<$n>(); }
    };
}
per_n!(1, c01_step_n1, c01_builder_n1);
per_n!(2, c01_step_n2, c01_builder_n2);
per_n!(3, c01_step_n3, c01_builder_n3);
per_n!(4, c01_step_n4, c01_builder_n4);
per_n!(5, c01_step_n5, c01_builder_n5);
per_n!(6, c01_step_n6, c01_builder_n6);
per_n!(7, c01_step_n7, c01_builder_n7);
per_n!(8, c01_step_n8, c01_builder_n8);

#[kani::proof]
#[kani::unwind(34)]
fn c01_step2_n3() { run::<3, 2>(); }
#[kani::proof]
#[kani::unwind(34)]
fn c01_step2_n4() { run::<4, 2>(); }

/// base cases: the three constructors establish the invariant
fn ctor<const N: usize>() {
    let which: u8 = kani::any();
    kani::assume(which < 3);
    let mut model = [0u8; N];
    let mut t = if which == 0 {
        let x: u8 = kani::any();
        kani::assume(x < 16);
        model = [x; N];
        Tree::new(N, Seq::one(x))
    } else if which == 1 {
        model = any_letters::<N>();
        let items: [Seq; N] = core::array::from_fn(|i| Seq::one(model[i]));
        Tree::from_slice(&items)
    } else {
        model = any_letters::<N>();
        let items: [Seq; N] = core::array::from_fn(|i| Seq::one(model[i]));
        Tree::from_iter(items.into_iter())
    };
    check_state::<N>(&t, &model);
    check_ask::<N>(&mut t, &model);
    kani::cover!(which == 0);
    kani::cover!(which == 2);
    core::mem::forget(t);
}
#[kani::proof]
#[kani::unwind(34)]
fn c01_ctor_n1() { ctor::<1>(); }
#[kani::proof]
#[kani::unwind(34)]
fn c01_ctor_n3() { ctor::<3>(); }
#[kani::proof]
#[kani::unwind(34)]
fn c01_ctor_n5() { ctor::<5>(); }
#[kani::proof]
#[kani::unwind(34)]
fn c01_ctor_n8() { ctor::<8>(); }

#[kani::proof]
#[kani::unwind(34)]
fn c01_twin_false() {
    let mut model = [0u8; 3];
    let mut t = build::<3>(&mut model);
    let got = t.ask(0, 2);
    assert!(nib(got.v, 0) != 7 || nib(got.v, 2) != 9 || nib(got.v, 1) == 0, "twin: deliberately false");
    core::mem::forget(t);
}
