//! C01 — segment-tree range query = in-order fold of the logical array (free-monoid item, arbitrary lazy state).
use crate::free::*;
use rlib_segtree::Segtree;

pub type Tree = Segtree<Seq, Md>;

pub fn any_md() -> Md {
    let c: u8 = kani::any();
    kani::assume(c < 16);
    Md { assign: kani::any(), c }
}

pub fn any_letters<const N: usize>() -> [u8; N] {
    let a: [u8; N] = kani::any();
    let mut i = 0;
    while i < N {
        kani::assume(a[i] < 16);
        i += 1;
    }
    a
}

/// the nodes of the implicit tree over [0, N-1]: (node index, l, r, depth), in an order where parents precede children
pub fn nodes<const N: usize>() -> ([(usize, usize, usize, usize); 32], usize) {
    let mut out = [(0usize, 0usize, 0usize, 0usize); 32];
    let mut cnt = 0;
    let mut stack = [(0usize, 0usize, 0usize, 0usize); 32];
    let mut sp = 1;
    stack[0] = (0, 0, N - 1, 0);
    while sp > 0 {
        sp -= 1;
        let (i, l, r, d) = stack[sp];
        out[cnt] = (i, l, r, d);
        cnt += 1;
        if l < r {
            let m = (l + r) / 2;
            stack[sp] = (2 * i + 1, l, m, d + 1);
            sp += 1;
            stack[sp] = (2 * i + 2, m + 1, r, d + 1);
            sp += 1;
        }
    }
    (out, cnt)
}

/// Arbitrary reachable state through the public API only: from_slice of symbolic letters, then one
/// modify(range(node), symbolic modifier) for EVERY node, deepest level first (no call pushes an earlier one down),
/// so afterwards every node carries an arbitrary pending modifier. All ranges are concrete: no branching.
pub fn build<const N: usize>(model: &mut [u8; N]) -> Tree {
    let init = any_letters::<N>();
    *model = init;
    let items: [Seq; N] = core::array::from_fn(|i| Seq::one(init[i]));
    let mut t = Tree::from_slice(&items);
    let (ns, cnt) = nodes::<N>();
    let mut depth = 5;
    loop {
        let mut i = 0;
        while i < cnt {
            let (_, l, r, d) = ns[i];
            if d == depth {
                let m = any_md();
                t.modify(l, r, &m);
                let mut k = l;
                while k <= r {
                    model[k] = m.apply1(model[k]);
                    k += 1;
                }
            }
            i += 1;
        }
        if depth == 0 {
            break;
        }
        depth -= 1;
    }
    t
}

/// representation invariant + abstraction function, on the raw node array (hook):
///  I(i): node.len = |range|, node.v = node.md-free merge of the children with the node's pending modifier already
///        applied, i.e. v(i) = apply(md(i), v(left) ++ v(right));
///  A(k): logical element k = leaf value with the pending modifiers of all its proper ancestors applied bottom-up.
pub fn check_state<const N: usize>(t: &Tree, model: &[u8; N]) {
    let (data, n) = t.verif_nodes();
    assert!(n == N);
    let (ns, cnt) = nodes::<N>();
    // pending modifier accumulated from the root down to each node (ancestors only), indexed like `ns`
    let mut acc = [ID; 32];
    let mut idx_of = [0usize; 64];
    let mut i = 0;
    while i < cnt {
        idx_of[ns[i].0] = i;
        i += 1;
    }
    let mut i = 0;
    while i < cnt {
        let (node, l, r, _) = ns[i];
        let me = &data[node];
        assert!(me.len as usize == r - l + 1, "node length");
        if l < r {
            let (a, b) = (&data[2 * node + 1], &data[2 * node + 2]);
            let sh = 4 * (a.len as u32);
            let cat = a.v | (b.v << sh);
            assert!(me.v == apply_packed(me.md, cat, me.len), "I: node aggregate = pending modifier applied to the merge of its children");
            // children inherit: child's own ancestors-pending = (child... ) first me.md then what is above me
            let down = me.md.then(acc[i]);
            acc[idx_of[2 * node + 1]] = down;
            acc[idx_of[2 * node + 2]] = down;
        } else {
            assert!(me.len == 1);
            assert!(acc[i].apply1(nib(me.v, 0)) == model[l], "A: logical element = leaf with its ancestors' pending modifiers applied");
        }
        i += 1;
    }
}

/// ask(l, r) with CONCRETE l, r from an arbitrary lazy state (the harnesses loop over every pair): the recursion of the
/// library then has concrete control flow whatever it does with its pushes, so a broken variant terminates as well
pub fn ask_at<const N: usize>(t: &mut Tree, model: &[u8; N], l: usize, r: usize) {
    let got = t.ask(l, r);
    assert!(got.len as usize == r - l + 1, "ask: length of the aggregate");
    let mut i = 0;
    while i < N {
        if l + i <= r {
            assert!(nib(got.v, i) == model[l + i], "ask: in-order merge of exactly the queried elements");
        }
        i += 1;
    }
}

/// every range modify from an arbitrary state: invariant + abstraction afterwards (on the raw node array)
fn all_modify<const N: usize, const L0: usize>() {
    let mut l = L0;
    while l <= L0 {
        let mut r = l;
        while r < N {
            let mut model = [0u8; N];
            let mut t = build::<N>(&mut model);
            let m = any_md();
            t.modify(l, r, &m);
            let mut i = l;
            while i <= r {
                model[i] = m.apply1(model[i]);
                i += 1;
            }
            check_state::<N>(&t, &model);
            core::mem::forget(t);
            r += 1;
        }
        l += 1;
    }
}

/// every point assignment from an arbitrary state
fn all_set<const N: usize>() {
    let mut p = 0;
    while p < N {
        let mut model = [0u8; N];
        let mut t = build::<N>(&mut model);
        let x: u8 = kani::any();
        kani::assume(x < 16);
        t.set(p, Seq::one(x));
        model[p] = x;
        check_state::<N>(&t, &model);
        core::mem::forget(t);
        p += 1;
    }
}

/// every range query from an arbitrary state: answer = model slice; the query leaves a consistent state (it pushes)
fn all_ask<const N: usize, const L0: usize>() {
    let mut l = L0;
    while l <= L0 {
        let mut r = l;
        while r < N {
            let mut model = [0u8; N];
            let mut t = build::<N>(&mut model);
            ask_at::<N>(&mut t, &model, l, r);
            check_state::<N>(&t, &model);
            core::mem::forget(t);
            r += 1;
        }
        l += 1;
    }
}

/// two modifications in a row with partially overlapping ranges, then a query over everything
fn two_ops<const N: usize>() {
    let mut l = 0;
    while l < N {
        let mut model = [0u8; N];
        let mut t = build::<N>(&mut model);
        let m1 = any_md();
        let m2 = any_md();
        let r1 = if l + 1 < N { l + 1 } else { l };
        t.modify(l, r1, &m1);
        let mut i = l;
        while i <= r1 {
            model[i] = m1.apply1(model[i]);
            i += 1;
        }
        t.modify(0, l, &m2);
        let mut i = 0;
        while i <= l {
            model[i] = m2.apply1(model[i]);
            i += 1;
        }
        check_state::<N>(&t, &model);
        ask_at::<N>(&mut t, &model, 0, N - 1);
        core::mem::forget(t);
        l += 1;
    }
}

/// the builder itself establishes the invariant (so `build` really yields states satisfying I and A)
fn builder_ok<const N: usize>() {
    let mut model = [0u8; N];
    let t = build::<N>(&mut model);
    check_state::<N>(&t, &model);
    let (data, _) = t.verif_nodes();
    kani::cover!(data[0].md.assign && data[0].md.c == 3, "root carries an arbitrary pending modifier");
    kani::cover!(N < 2 || (!data[1].md.assign && data[1].md.c == 5), "inner node carries an arbitrary pending modifier");
    core::mem::forget(t);
}

macro_rules! per_n {
    ($n:expr, $st:ident, $two:ident, $bld:ident) => {
        #[kani::proof]
        #[kani::unwind(34)]
        fn $st() { all_set::<$n>(); }
        #[kani::proof]
        #[kani::unwind(34)]
        fn $two() { two_ops::<$n>(); }
        #[kani::proof]
        #[kani::unwind(34)]
        fn $bld() { builder_ok::<$n>(); }
    };
}
macro_rules! per_nl {
    ($n:expr, $l:expr, $md:ident, $ask:ident) => {
        #[kani::proof]
        #[kani::unwind(34)]
        fn $md() { all_modify::<$n, $l>(); }
        #[kani::proof]
        #[kani::unwind(34)]
        fn $ask() { all_ask::<$n, $l>(); }
    };
}
per_n!(1, c01_set_n1, c01_two_n1, c01_builder_n1);
per_nl!(1, 0, c01_modify_n1_l0, c01_ask_n1_l0);
per_n!(2, c01_set_n2, c01_two_n2, c01_builder_n2);
per_nl!(2, 0, c01_modify_n2_l0, c01_ask_n2_l0);
per_nl!(2, 1, c01_modify_n2_l1, c01_ask_n2_l1);
per_n!(3, c01_set_n3, c01_two_n3, c01_builder_n3);
per_nl!(3, 0, c01_modify_n3_l0, c01_ask_n3_l0);
per_nl!(3, 1, c01_modify_n3_l1, c01_ask_n3_l1);
per_nl!(3, 2, c01_modify_n3_l2, c01_ask_n3_l2);
per_n!(4, c01_set_n4, c01_two_n4, c01_builder_n4);
per_nl!(4, 0, c01_modify_n4_l0, c01_ask_n4_l0);
per_nl!(4, 1, c01_modify_n4_l1, c01_ask_n4_l1);
per_nl!(4, 2, c01_modify_n4_l2, c01_ask_n4_l2);
per_nl!(4, 3, c01_modify_n4_l3, c01_ask_n4_l3);
per_n!(5, c01_set_n5, c01_two_n5, c01_builder_n5);
per_nl!(5, 0, c01_modify_n5_l0, c01_ask_n5_l0);
per_nl!(5, 1, c01_modify_n5_l1, c01_ask_n5_l1);
per_nl!(5, 2, c01_modify_n5_l2, c01_ask_n5_l2);
per_nl!(5, 3, c01_modify_n5_l3, c01_ask_n5_l3);
per_nl!(5, 4, c01_modify_n5_l4, c01_ask_n5_l4);
per_n!(6, c01_set_n6, c01_two_n6, c01_builder_n6);
per_nl!(6, 0, c01_modify_n6_l0, c01_ask_n6_l0);
per_nl!(6, 1, c01_modify_n6_l1, c01_ask_n6_l1);
per_nl!(6, 2, c01_modify_n6_l2, c01_ask_n6_l2);
per_nl!(6, 3, c01_modify_n6_l3, c01_ask_n6_l3);
per_nl!(6, 4, c01_modify_n6_l4, c01_ask_n6_l4);
per_nl!(6, 5, c01_modify_n6_l5, c01_ask_n6_l5);
per_n!(7, c01_set_n7, c01_two_n7, c01_builder_n7);
per_nl!(7, 0, c01_modify_n7_l0, c01_ask_n7_l0);
per_nl!(7, 1, c01_modify_n7_l1, c01_ask_n7_l1);
per_nl!(7, 2, c01_modify_n7_l2, c01_ask_n7_l2);
per_nl!(7, 3, c01_modify_n7_l3, c01_ask_n7_l3);
per_nl!(7, 4, c01_modify_n7_l4, c01_ask_n7_l4);
per_nl!(7, 5, c01_modify_n7_l5, c01_ask_n7_l5);
per_nl!(7, 6, c01_modify_n7_l6, c01_ask_n7_l6);
per_n!(8, c01_set_n8, c01_two_n8, c01_builder_n8);
per_nl!(8, 0, c01_modify_n8_l0, c01_ask_n8_l0);
per_nl!(8, 1, c01_modify_n8_l1, c01_ask_n8_l1);
per_nl!(8, 2, c01_modify_n8_l2, c01_ask_n8_l2);
per_nl!(8, 3, c01_modify_n8_l3, c01_ask_n8_l3);
per_nl!(8, 4, c01_modify_n8_l4, c01_ask_n8_l4);
per_nl!(8, 5, c01_modify_n8_l5, c01_ask_n8_l5);
per_nl!(8, 6, c01_modify_n8_l6, c01_ask_n8_l6);
per_nl!(8, 7, c01_modify_n8_l7, c01_ask_n8_l7);

/// base cases: the three constructors establish the invariant
fn ctor<const N: usize>() {
    let which: u8 = kani::any();
    kani::assume(which < 3);
    let mut model = [0u8; N];
    let mut t = if which == 0 {
        let x: u8 = kani::any();
        kani::assume(x < 16);
        model = [x; N];
        // a fill element that itself carries a pending modifier (e.g. one obtained by ask(i, i) from another tree)
        let mut e = Seq::one(x);
        e.md = any_md();
        Tree::new(N, e)
    } else if which == 1 {
        model = any_letters::<N>();
        let mds: [Md; N] = core::array::from_fn(|_| any_md());
        let items: [Seq; N] = core::array::from_fn(|i| { let mut e = Seq::one(model[i]); e.md = mds[i]; e });
        Tree::from_slice(&items)
    } else {
        model = any_letters::<N>();
        let mds: [Md; N] = core::array::from_fn(|_| any_md());
        let items: [Seq; N] = core::array::from_fn(|i| { let mut e = Seq::one(model[i]); e.md = mds[i]; e });
        Tree::from_iter(items.into_iter())
    };
    // the pending modifier of a leaf element has no children to reach: the logical array is the letters as given
    ask_at::<N>(&mut t, &model, 0, N - 1);
    ask_at::<N>(&mut t, &model, N / 2, N - 1);
    ask_at::<N>(&mut t, &model, 0, N / 2);
    ask_at::<N>(&mut t, &model, N / 2, N / 2);
    kani::cover!(which == 0);
    kani::cover!(which == 2);
    core::mem::forget(t);
}
#[kani::proof]
#[kani::unwind(34)]
fn c01_ctor_n1() { ctor::<1>(); }
#[kani::proof]
#[kani::unwind(34)]
fn c01_ctor_n3() { ctor::<3>(); }
#[kani::proof]
#[kani::unwind(34)]
fn c01_ctor_n5() { ctor::<5>(); }
#[kani::proof]
#[kani::unwind(34)]
fn c01_ctor_n8() { ctor::<8>(); }

/// constructors from plain elements (no pending modifier) establish invariant + abstraction on the raw node array
fn ctor_inv<const N: usize>() {
    let which: bool = kani::any();
    let model = any_letters::<N>();
    let items: [Seq; N] = core::array::from_fn(|i| Seq::one(model[i]));
    let t = if which { Tree::from_slice(&items) } else { Tree::from_iter(items.into_iter()) };
    check_state::<N>(&t, &model);
    core::mem::forget(t);
}
#[kani::proof]
#[kani::unwind(34)]
fn c01_ctorinv_n3() { ctor_inv::<3>(); }
#[kani::proof]
#[kani::unwind(34)]
fn c01_ctorinv_n6() { ctor_inv::<6>(); }

/// the pair combinator with NON-commutative components behaves like its two components side by side
/// (a slot-wise argument swap in merge/update/push/modify is invisible to min/max/sum)
fn combinator_free<const N: usize>() {
    use rlib_segtree::segtree_items::Combinator;
    type Pair = Combinator<Seq, Seq>;
    let la = any_letters::<N>();
    let lb = any_letters::<N>();
    let items: [Pair; N] = core::array::from_fn(|i| Combinator(Seq::one(la[i]), Seq::one(lb[i])));
    let which: bool = kani::any();
    let mut t = if which { Segtree::<Pair, Md>::from_slice(&items) } else { Segtree::<Pair, Md>::from_iter(items.into_iter()) };
    let (mut ma, mut mb) = (la, lb);
    // a pending modifier on the root and one on a strict sub-range, then a point assignment
    let m1 = any_md();
    let m2 = any_md();
    t.modify(0, N - 1, &m1);
    t.modify(N / 2, N - 1, &m2);
    let mut i = 0;
    while i < N {
        ma[i] = m1.apply1(ma[i]);
        mb[i] = m1.apply1(mb[i]);
        if i >= N / 2 {
            ma[i] = m2.apply1(ma[i]);
            mb[i] = m2.apply1(mb[i]);
        }
        i += 1;
    }
    let x: u8 = kani::any();
    let y: u8 = kani::any();
    kani::assume(x < 16 && y < 16);
    t.set(0, Combinator(Seq::one(x), Seq::one(y)));
    ma[0] = x;
    mb[0] = y;
    let mut l = 0;
    while l < N {
        let mut r = l;
        while r < N {
            let got = t.ask(l, r);
            assert!(got.0.len as usize == r - l + 1 && got.1.len as usize == r - l + 1);
            let mut i = 0;
            while i < N {
                if l + i <= r {
                    assert!(nib(got.0.v, i) == ma[l + i], "pair combinator: first component = its own tree");
                    assert!(nib(got.1.v, i) == mb[l + i], "pair combinator: second component = its own tree");
                }
                i += 1;
            }
            r += 1;
        }
        l += 1;
    }
    kani::cover!(which);
    kani::cover!(!which);
    core::mem::forget(t);
}
#[kani::proof]
#[kani::unwind(34)]
fn c01_combinator_free_n3() { combinator_free::<3>(); }
#[kani::proof]
#[kani::unwind(34)]
fn c01_combinator_free_n4() { combinator_free::<4>(); }

#[kani::proof]
#[kani::unwind(34)]
fn c01_twin_false() {
    let mut model = [0u8; 3];
    let mut t = build::<3>(&mut model);
    let got = t.ask(0, 2);
    assert!(nib(got.v, 0) != 7 || nib(got.v, 2) != 9 || nib(got.v, 1) == 0, "twin: deliberately false");
    core::mem::forget(t);
}
