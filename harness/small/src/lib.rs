#![allow(dead_code, unused_assignments)]
#[cfg(kani)]
mod bitset;
#[cfg(kani)]
mod iters;
#[cfg(kani)]
mod tensor;
