#![allow(dead_code)]
#[cfg(kani)]
mod tensor;
