//! C15 — combinatorial iterators enumerate exactly the specified set, once each, in order.
use rlib_iter::*;

macro_rules! sub_harness {
    ($name:ident, $t:ty, $u:ty, $maxpop:expr, $unw:expr) => {
        #[kani::proof]
        #[kani::unwind($unw)]
        fn $name() {
            let x: $t = kani::any();
            kani::assume(x.count_ones() <= $maxpop);
            let total: u32 = 1u32 << x.count_ones();
            let mut n: u32 = 0;
            let mut prev: $u = 0;
            let mut last: $t = x;
            for s in iter_submasks(x) {
                if n == 0 {
                    assert!(s == x, "first submask is x itself");
                } else {
                    assert!((s as $u) < prev, "strictly decreasing as unsigned");
                }
                assert!(s & !x == 0, "every element is a submask");
                prev = s as $u;
                last = s;
                n += 1;
                assert!(n <= total, "no more than 2^popcount elements");
            }
            assert!(n == total, "exactly 2^popcount(x) submasks");
            assert!(last == 0, "ends with 0");
            kani::cover!(x.count_ones() == $maxpop && (x as $u) >> (<$u>::BITS - 1) == 1 && x & 1 == 1, "top and bottom bit set");
        }
    };
}

macro_rules! sup_harness {
    ($name:ident, $t:ty, $u:ty, $maxpop:expr, $unw:expr) => {
        #[kani::proof]
        #[kani::unwind($unw)]
        fn $name() {
            let x: $t = kani::any();
            kani::assume(x.count_zeros() <= $maxpop);
            let total: u32 = 1u32 << x.count_zeros();
            let mut n: u32 = 0;
            let mut prev: $u = 0;
            let mut last: $t = x;
            for s in iter_supermasks(x) {
                if n == 0 {
                    assert!(s == x, "first supermask is x itself");
                } else {
                    assert!((s as $u) > prev, "strictly increasing as unsigned");
                }
                assert!(s & x == x, "every element is a supermask");
                prev = s as $u;
                last = s;
                n += 1;
                assert!(n <= total, "no more than 2^popcount(!x) elements");
            }
            assert!(n == total, "exactly 2^popcount(!x) supermasks");
            assert!((last as $u) == <$u>::MAX, "ends with all-ones");
            kani::cover!(x.count_zeros() == $maxpop && (x as $u) >> (<$u>::BITS - 1) == 0 && x & 1 == 0, "top and bottom bit clear");
        }
    };
}

sub_harness!(c15_sub_u8, u8, u8, 4, 18);
sub_harness!(c15_sub_i8, i8, u8, 4, 18);
sub_harness!(c15_sub_u16, u16, u16, 4, 18);
sub_harness!(c15_sub_i16, i16, u16, 4, 18);
sub_harness!(c15_sub_u32, u32, u32, 4, 18);
sub_harness!(c15_sub_i32, i32, u32, 4, 18);
sub_harness!(c15_sub_u64, u64, u64, 4, 18);
sub_harness!(c15_sub_i64, i64, u64, 4, 18);
sub_harness!(c15_sub_u128, u128, u128, 4, 18);
sub_harness!(c15_sub_i128, i128, u128, 4, 18);
sub_harness!(c15_sub_usize, usize, usize, 4, 18);
sub_harness!(c15_sub_isize, isize, usize, 4, 18);
sup_harness!(c15_sup_u8, u8, u8, 4, 18);
sup_harness!(c15_sup_i8, i8, u8, 4, 18);
sup_harness!(c15_sup_u16, u16, u16, 4, 18);
sup_harness!(c15_sup_i16, i16, u16, 4, 18);
sup_harness!(c15_sup_u32, u32, u32, 4, 18);
sup_harness!(c15_sup_i32, i32, u32, 4, 18);
sup_harness!(c15_sup_u64, u64, u64, 4, 18);
sup_harness!(c15_sup_i64, i64, u64, 4, 18);
sup_harness!(c15_sup_u128, u128, u128, 4, 18);
sup_harness!(c15_sup_i128, i128, u128, 4, 18);
sup_harness!(c15_sup_usize, usize, usize, 4, 18);
sup_harness!(c15_sup_isize, isize, usize, 4, 18);
sub_harness!(c15_sub_u128_p3, u128, u128, 3, 10);
sub_harness!(c15_sub_i128_p3, i128, u128, 3, 10);
sup_harness!(c15_sup_u128_p3, u128, u128, 3, 10);
sup_harness!(c15_sup_i128_p3, i128, u128, 3, 10);
// thorough: 8-bit types with unrestricted x (<= 256 elements), 16-bit with popcount <= 6
sub_harness!(c15_sub_u8_full, u8, u8, 8, 258);
sub_harness!(c15_sub_i8_full, i8, u8, 8, 258);
sup_harness!(c15_sup_u8_full, u8, u8, 8, 258);
sup_harness!(c15_sup_i8_full, i8, u8, 8, 258);
sub_harness!(c15_sub_u16_p6, u16, u16, 6, 66);
sup_harness!(c15_sup_i16_p6, i16, u16, 6, 66);
sub_harness!(c15_sub_u64_p6, u64, u64, 6, 66);
sup_harness!(c15_sup_i128_p6, i128, u128, 6, 66);

// ---------- permutations ----------
fn lex_lt<const L: usize>(a: &[u8; L], b: &[u8; L], len: usize) -> bool {
    let mut k = 0;
    let mut res = false;
    let mut decided = false;
    while k < L {
        if k < len && !decided && a[k] != b[k] {
            res = a[k] < b[k];
            decided = true;
        }
        k += 1;
    }
    res
}

fn same_multiset<const L: usize>(a: &[u8; L], b: &[u8; L], len: usize, alpha: u8) -> bool {
    let mut c = 0u8;
    let mut ok = true;
    while c < alpha {
        let (mut na, mut nb) = (0, 0);
        let mut k = 0;
        while k < L {
            if k < len {
                if a[k] == c { na += 1; }
                if b[k] == c { nb += 1; }
            }
            k += 1;
        }
        if na != nb { ok = false; }
        c += 1;
    }
    ok
}

fn any_seq<const L: usize>(len: usize, alpha: u8) -> [u8; L] {
    let a: [u8; L] = kani::any();
    let mut k = 0;
    while k < L {
        kani::assume(a[k] < alpha);
        if k >= len { kani::assume(a[k] == 0); }
        k += 1;
    }
    a
}

fn next_perm<const L: usize>(alpha: u8) {
    let len: usize = kani::any();
    kani::assume(len <= L);
    let a = any_seq::<L>(len, alpha);
    let mut b = a;
    let r = next_permutation(&mut b[..len]);
    assert!(same_multiset(&a, &b, len, alpha), "result is a rearrangement");
    let mut k = len;
    while k < L { assert!(b[k] == 0); k += 1; }
    if r {
        assert!(lex_lt(&a, &b, len), "successor is greater");
        let y = any_seq::<L>(len, alpha);
        kani::assume(same_multiset(&a, &y, len, alpha));
        assert!(!(lex_lt(&a, &y, len) && lex_lt(&y, &b, len)), "no arrangement strictly between: it is THE successor");
    } else {
        let mut k = 0;
        while k + 1 < L {
            if k + 1 < len {
                assert!(a[k] >= a[k + 1], "false only at the last (non-increasing) arrangement");
                assert!(b[k] <= b[k + 1], "wraps to sorted order");
            }
            k += 1;
        }
    }
    kani::cover!(r && len == L && a[0] != b[0], "successor changes the first element");
    kani::cover!(!r && len == L && a[0] != a[L - 1], "wrap-around with distinct letters");
}

#[kani::proof]
#[kani::unwind(8)]
fn c15_nextperm_l4() { next_perm::<4>(3); }
#[kani::proof]
#[kani::unwind(8)]
fn c15_nextperm_l5() { next_perm::<5>(3); }
#[kani::proof]
#[kani::unwind(9)]
fn c15_nextperm_l6() { next_perm::<6>(3); }
#[kani::proof]
#[kani::unwind(10)]
fn c15_nextperm_l7() { next_perm::<7>(3); }
#[kani::proof]
#[kani::unwind(9)]
fn c15_nextperm_l6_distinct() { next_perm::<6>(6); }

/// iter_permutations: first = sorted input, each following = successor of the previous, count = multinomial
fn iter_perm<const L: usize>(alpha: u8, maxcount: u32) {
    let a = any_seq::<L>(L, alpha);
    let v: Vec<u8> = a.to_vec();
    let mut prev = [0u8; L];
    let mut n = 0u32;
    for p in iter_permutations(v) {
        assert!(p.len() == L);
        let mut cur = [0u8; L];
        let mut k = 0;
        while k < L { cur[k] = p[k]; k += 1; }
        core::mem::forget(p);
        assert!(same_multiset(&a, &cur, L, alpha));
        if n == 0 {
            let mut k = 0;
            while k + 1 < L { assert!(cur[k] <= cur[k + 1], "first arrangement is the sorted input"); k += 1; }
        } else {
            assert!(lex_lt(&prev, &cur, L), "strictly increasing lexicographically (each arrangement once)");
            let mut chk = prev;
            assert!(next_permutation(&mut chk));
            assert!(!lex_lt(&chk, &cur, L) && !lex_lt(&cur, &chk, L), "each step is the successor");
        }
        prev = cur;
        n += 1;
        assert!(n <= maxcount);
    }
    // last one yielded is the maximum arrangement
    let mut k = 0;
    while k + 1 < L { assert!(prev[k] >= prev[k + 1], "ends at the last arrangement"); k += 1; }
    kani::cover!(n == maxcount, "all-distinct input reachable");
    kani::cover!(n == 1, "all-equal input reachable");
}

#[kani::proof]
#[kani::unwind(8)]
fn c15_iterperm_l3() { iter_perm::<3>(3, 6); }

// ---------- neighbours ----------
fn neigh(kind: u8) {
    let n: usize = kani::any();
    let m: usize = kani::any();
    let i: usize = kani::any();
    let j: usize = kani::any();
    kani::assume(n <= (1usize << 62) && m <= (1usize << 62) && i < n && j < m);
    const O4: [(i8, i8); 4] = [(0, 1), (-1, 0), (0, -1), (1, 0)];
    const O4D: [(i8, i8); 4] = [(-1, 1), (-1, -1), (1, -1), (1, 1)];
    const O8: [(i8, i8); 8] = [(0, 1), (-1, 1), (-1, 0), (-1, -1), (0, -1), (1, -1), (1, 0), (1, 1)];
    let mut exp = [(0usize, 0usize); 8];
    let mut cnt = 0;
    let len = if kind == 2 { 8 } else { 4 };
    let mut k = 0;
    while k < len {
        let (dx, dy) = if kind == 0 { O4[k] } else if kind == 1 { O4D[k] } else { O8[k] };
        let okx = if dx < 0 { i >= 1 } else if dx > 0 { i + 1 < n } else { true };
        let oky = if dy < 0 { j >= 1 } else if dy > 0 { j + 1 < m } else { true };
        if okx && oky {
            let x = if dx < 0 { i - 1 } else if dx > 0 { i + 1 } else { i };
            let y = if dy < 0 { j - 1 } else if dy > 0 { j + 1 } else { j };
            exp[cnt] = (x, y);
            cnt += 1;
        }
        k += 1;
    }
    let mut got = 0;
    macro_rules! drive { ($it:expr) => { for p in $it { assert!(got < cnt, "no extra neighbour"); assert!(p == exp[got], "in-bounds neighbours in the fixed order"); got += 1; } } }
    if kind == 0 { drive!(iter_neighbours_4(n, m, i, j)); }
    else if kind == 1 { drive!(iter_neighbours_4d(n, m, i, j)); }
    else { drive!(iter_neighbours_8(n, m, i, j)); }
    assert!(got == cnt, "no neighbour missing");
    kani::cover!(cnt == len, "interior cell");
    kani::cover!(cnt == 0 || (kind != 1 && cnt == 1), "degenerate grid");
    kani::cover!(i + 1 == n && j + 1 == m && n > 1 && m > 1, "far corner");
}

#[kani::proof]
#[kani::unwind(10)]
fn c15_neigh4() { neigh(0); }
#[kani::proof]
#[kani::unwind(10)]
fn c15_neigh4d() { neigh(1); }
#[kani::proof]
#[kani::unwind(10)]
fn c15_neigh8() { neigh(2); }

#[kani::proof]
#[kani::unwind(18)]
fn c15_twin_false() {
    let x: u16 = kani::any();
    kani::assume(x.count_ones() <= 4);
    let mut n = 0u32;
    for s in iter_submasks(x) {
        assert!(s != 0 || x == 0 || n < 3, "twin: deliberately false");
        n += 1;
    }
}
