//! C19 — Tensor indexing is a row-major bijection with per-dimension bounds checks.
use rlib_tensor::Tensor;

fn any_dims<const D: usize>(max: usize) -> [usize; D] {
    let d: [usize; D] = kani::any();
    let mut k = 0;
    while k < D {
        kani::assume(d[k] >= 1 && d[k] <= max);
        k += 1;
    }
    d
}

fn any_idx<const D: usize>(dims: &[usize; D]) -> [usize; D] {
    let i: [usize; D] = kani::any();
    let mut k = 0;
    while k < D {
        kani::assume(i[k] < dims[k]);
        k += 1;
    }
    i
}

fn row_major<const D: usize>(dims: &[usize; D], i: &[usize; D]) -> usize {
    // Horner form of the row-major offset: ((i0*d1 + i1)*d2 + i2)...
    let mut off = 0usize;
    let mut k = 0;
    while k < D {
        off = off * dims[k] + i[k];
        k += 1;
    }
    off
}

fn arr_eq<const D: usize>(a: &[usize; D], b: &[usize; D]) -> bool {
    // fieldwise (array == is a memcmp loop over 8*D bytes)
    let mut k = 0;
    let mut e = true;
    while k < D {
        if a[k] != b[k] {
            e = false;
        }
        k += 1;
    }
    e
}

fn prod<const D: usize>(dims: &[usize; D]) -> usize {
    let mut p = 1usize;
    let mut k = 0;
    while k < D {
        p *= dims[k];
        k += 1;
    }
    p
}

/// get_index = row-major offset, inside the storage, injective; write-then-read through IndexMut/Index.
fn index_bijection<const D: usize>(max: usize) {
    let dims = any_dims::<D>(max);
    let mut t = Tensor::<u8, D>::new(dims, 0u8);
    let i = any_idx(&dims);
    let j = any_idx(&dims);
    let oi = t.get_index(i);
    let oj = t.get_index(j);
    assert!(oi == row_major(&dims, &i));
    assert!(oi < prod(&dims));
    assert!((oi == oj) == arr_eq(&i, &j));
    assert!(arr_eq(t.dims(), &dims));
    let v: u8 = kani::any();
    kani::assume(v != 0);
    t[i] = v;
    assert!(t[i] == v);
    if !arr_eq(&i, &j) {
        assert!(t[j] == 0);
    }
    // iteration order: exactly one non-zero element, at position row_major(i)
    let k: usize = kani::any();
    kani::assume(k < prod(&dims));
    let e = *t.iter().nth(k).unwrap();
    assert!((e == v) == (k == oi));
    assert!(e == v || e == 0);
    kani::cover!(D == 1 || (i[0] != j[0] && i[D - 1] != j[D - 1]), "distinct indices reachable");
    kani::cover!(oi + 1 == prod(&dims), "last element reachable");
    core::mem::forget(t);
}

#[kani::proof]
#[kani::unwind(30)]
fn c19_index_d1() {
    index_bijection::<1>(5);
}
#[kani::proof]
#[kani::unwind(30)]
fn c19_index_d2() {
    index_bijection::<2>(5);
}
#[kani::proof]
#[kani::unwind(30)]
fn c19_index_d3() {
    index_bijection::<3>(3);
}
#[kani::proof]
#[kani::unwind(83)]
fn c19_index_d4() {
    index_bijection::<4>(3);
}
#[kani::proof]
#[kani::unwind(130)]
fn c19_index_d3_e5() {
    index_bijection::<3>(5);
}

/// from_vec / from_slice lay the given elements out row-major: element k of the input is at multi-index unflatten(k).
fn layout<const D: usize, const N: usize>(max: usize, slice: bool) {
    let dims = any_dims::<D>(max);
    let n = prod(&dims);
    kani::assume(n <= N);
    let data: [u8; N] = kani::any();
    let t = if slice {
        Tensor::<u8, D>::from_slice(dims, &data[..n])
    } else {
        let mut v = Vec::with_capacity(N);
        let mut k = 0;
        while k < N {
            if k < n {
                v.push(data[k]);
            }
            k += 1;
        }
        Tensor::<u8, D>::from_vec(dims, v)
    };
    let i = any_idx(&dims);
    assert!(t[i] == data[row_major(&dims, &i)]);
    let k: usize = kani::any();
    kani::assume(k < n);
    assert!(*t.iter().nth(k).unwrap() == data[k]);
    let c = t.clone();
    assert!(c[i] == t[i]);
    assert!(arr_eq(c.dims(), &dims));
    kani::cover!(n == N, "full shape reachable");
    core::mem::forget(t);
    core::mem::forget(c);
}

#[kani::proof]
#[kani::unwind(12)]
fn c19_layout_vec_d2() {
    layout::<2, 9>(3, false);
}
#[kani::proof]
#[kani::unwind(12)]
fn c19_layout_slice_d2() {
    layout::<2, 9>(3, true);
}
#[kani::proof]
#[kani::unwind(12)]
fn c19_layout_vec_d3() {
    layout::<3, 8>(2, false);
}
#[kani::proof]
#[kani::unwind(12)]
fn c19_layout_slice_d3() {
    layout::<3, 8>(2, true);
}
#[kani::proof]
#[kani::unwind(20)]
fn c19_layout_slice_d4() {
    layout::<4, 16>(2, true);
}

/// An index that is out of range in exactly one dimension (its flattened offset may still be inside the storage)
/// must panic: the marker below must be unreachable.
fn oob<const D: usize>(max: usize) {
    let dims = any_dims::<D>(max);
    let t = Tensor::<u8, D>::new(dims, 0u8);
    let mut i = any_idx(&dims);
    let bad: usize = kani::any();
    kani::assume(bad < D);
    let over: usize = kani::any();
    kani::assume(over >= dims[bad] && over <= dims[bad] + 2);
    i[bad] = over;
    let which: bool = kani::any();
    if which {
        let _ = t.get_index(i);
    } else {
        let _ = t[i];
    }
    panic!("VERIF-REACHED: out-of-range index accepted");
}

#[kani::proof]
#[kani::unwind(30)]
fn c19_oob_d1() {
    oob::<1>(5);
}
#[kani::proof]
#[kani::unwind(30)]
fn c19_oob_d2() {
    oob::<2>(5);
}
#[kani::proof]
#[kani::unwind(30)]
fn c19_oob_d3() {
    oob::<3>(4);
}
#[kani::proof]
#[kani::unwind(30)]
fn c19_oob_d4() {
    oob::<4>(3);
}

/// index_mut path of the same rejection
#[kani::proof]
#[kani::unwind(30)]
fn c19_oob_mut_d3() {
    let dims = any_dims::<3>(4);
    let mut t = Tensor::<u8, 3>::new(dims, 0u8);
    let mut i = any_idx(&dims);
    let bad: usize = kani::any();
    kani::assume(bad < 3);
    i[bad] = dims[bad];
    t[i] = 1;
    panic!("VERIF-REACHED: out-of-range index accepted by index_mut");
}

/// zero extents / mismatching data length are rejected by every constructor
#[kani::proof]
#[kani::unwind(12)]
fn c19_ctor_reject_zero() {
    let mut dims: [usize; 3] = kani::any();
    let mut k = 0;
    while k < 3 {
        kani::assume(dims[k] <= 2);
        k += 1;
    }
    let z: usize = kani::any();
    kani::assume(z < 3);
    dims[z] = 0;
    let w: u8 = kani::any();
    kani::assume(w < 3);
    if w == 0 {
        let _ = Tensor::<u8, 3>::new(dims, 0u8);
    } else if w == 1 {
        let _ = Tensor::<u8, 3>::from_vec(dims, Vec::new());
    } else {
        let e: [u8; 0] = [];
        let _ = Tensor::<u8, 3>::from_slice(dims, &e);
    }
    panic!("VERIF-REACHED: zero extent accepted");
}

#[kani::proof]
#[kani::unwind(12)]
fn c19_ctor_reject_len() {
    let dims = any_dims::<2>(3);
    let n = prod(&dims);
    let len: usize = kani::any();
    kani::assume(len <= 9 && len != n);
    let data = [0u8; 9];
    let w: bool = kani::any();
    if w {
        let _ = Tensor::<u8, 2>::from_slice(dims, &data[..len]);
    } else {
        let mut v = Vec::with_capacity(9);
        let mut k = 0;
        while k < 9 {
            if k < len {
                v.push(0u8);
            }
            k += 1;
        }
        let _ = Tensor::<u8, 2>::from_vec(dims, v);
    }
    panic!("VERIF-REACHED: wrong data length accepted");
}

/// equality: equal iff shape and elements agree
fn equality<const D: usize, const N: usize>(max: usize) {
    let da = any_dims::<D>(max);
    let db = any_dims::<D>(max);
    let na = prod(&da);
    let nb = prod(&db);
    kani::assume(na <= N && nb <= N);
    let xa: [u8; N] = kani::any();
    let xb: [u8; N] = kani::any();
    let a = Tensor::<u8, D>::from_slice(da, &xa[..na]);
    let b = Tensor::<u8, D>::from_slice(db, &xb[..nb]);
    let mut same = arr_eq(&da, &db);
    if same {
        let mut k = 0;
        while k < N {
            if k < na && xa[k] != xb[k] {
                same = false;
            }
            k += 1;
        }
    }
    let eq = a == b;
    assert!(eq == same, "tensor == must hold exactly when shape and elements agree");
    kani::cover!(same, "equal tensors reachable");
    kani::cover!(!same && na == nb, "different shape, same element count reachable");
    core::mem::forget(a);
    core::mem::forget(b);
}

#[kani::proof]
#[kani::unwind(34)]
fn c19_eq_d2() {
    equality::<2, 6>(3);
}
#[kani::proof]
#[kani::unwind(34)]
fn c19_eq_d3() {
    equality::<3, 8>(2);
}
#[kani::proof]
#[kani::unwind(34)]
fn c19_eq_d1() {
    equality::<1, 5>(5);
}

/// clone_from from a tensor of a different shape gives a tensor equal to the source (shape included)
#[kani::proof]
#[kani::unwind(34)]
fn c19_clone_from() {
    let da = any_dims::<2>(3);
    let db = any_dims::<2>(3);
    let na = prod(&da);
    let nb = prod(&db);
    kani::assume(na <= 6 && nb <= 6);
    let xa: [u8; 6] = kani::any();
    let xb: [u8; 6] = kani::any();
    let mut a = Tensor::<u8, 2>::from_slice(da, &xa[..na]);
    let b = Tensor::<u8, 2>::from_slice(db, &xb[..nb]);
    a.clone_from(&b);
    assert!(arr_eq(a.dims(), &db), "clone_from copies the shape");
    let i = any_idx(&db);
    assert!(a[i] == xb[row_major(&db, &i)], "clone_from copies the elements, addressed through the new shape");
    assert!(a == b);
    kani::cover!(!arr_eq(&da, &db) && na == nb, "different shape, same element count");
    core::mem::forget(a);
    core::mem::forget(b);
}

/// deliberately false twin (vacuity guard): same assumptions as index_bijection, false claim
#[kani::proof]
#[kani::unwind(30)]
fn c19_twin_false() {
    let dims = any_dims::<3>(3);
    let t = Tensor::<u8, 3>::new(dims, 0u8);
    let i = any_idx(&dims);
    let j = any_idx(&dims);
    assert!(t.get_index(i) != t.get_index(j) || i[2] == j[2] && i[0] != j[0], "twin: deliberately false");
    core::mem::forget(t);
}
