//! C12 — Bitset operations agree with a set of indices.
use rlib_bitset::Bitset;

/// Build a bitset whose words are the given (symbolic) words, through the public API only:
/// `from_u64` for word 0 and `set` at concrete indices for the others (no branching on symbolic data
/// inside the library: the index of every call is concrete).
fn build<const N: usize>(w: &[u64; N]) -> Bitset<N> {
    let mut b = Bitset::<N>::from_u64(w[0]);
    let mut k = 1;
    while k < N {
        let mut j = 0;
        while j < 64 {
            if (w[k] >> j) & 1 == 1 {
                b.set(64 * k + j);
            }
            j += 1;
        }
        k += 1;
    }
    b
}

fn bit<const N: usize>(w: &[u64; N], i: usize) -> bool {
    (w[i / 64] >> (i % 64)) & 1 == 1
}

fn any_index<const N: usize>() -> usize {
    let i: usize = kani::any();
    kani::assume(i < 64 * N);
    i
}

/// point operations from an arbitrary state: observer index i plays the universal quantifier
fn point_ops<const N: usize>() {
    let w: [u64; N] = kani::any();
    let mut b = build(&w);
    let i = any_index::<N>();
    assert!(b.test(i) == bit(&w, i), "builder/test agree with the words");
    let x = any_index::<N>();
    let op: u8 = kani::any();
    kani::assume(op < 4);
    let before = bit(&w, i);
    let expect = match op {
        0 => {
            b.set(x);
            if i == x { true } else { before }
        }
        1 => {
            b.remove(x);
            if i == x { false } else { before }
        }
        2 => {
            b.flip(x);
            if i == x { !before } else { before }
        }
        _ => {
            b.clear();
            false
        }
    };
    assert!(b.test(i) == expect, "point operation agrees with the set model");
    kani::cover!(op == 2 && i == x && x % 64 == 63, "flip at a word boundary observed");
    kani::cover!(N == 1 || (op == 1 && i == x && x == 64 * N - 1 && before), "remove of the last bit observed");
}

#[kani::proof]
#[kani::unwind(66)]
fn c12_point_n1() {
    point_ops::<1>();
}
#[kani::proof]
#[kani::unwind(66)]
fn c12_point_n2() {
    point_ops::<2>();
}
#[kani::proof]
#[kani::unwind(66)]
fn c12_point_n3() {
    point_ops::<3>();
}

/// binary operators, assigning forms, complement, count, equality, construction
fn bin_ops<const N: usize>() {
    let wa: [u64; N] = kani::any();
    let wb: [u64; N] = kani::any();
    let a = build(&wa);
    let b = build(&wb);
    let i = any_index::<N>();
    let (x, y) = (bit(&wa, i), bit(&wb, i));
    assert!((&a & &b).test(i) == (x && y));
    assert!((&a | &b).test(i) == (x || y));
    assert!((&a ^ &b).test(i) == (x != y));
    let mut c = a.clone();
    c &= &b;
    assert!(c.test(i) == (x && y));
    let mut c = a.clone();
    c |= &b;
    assert!(c.test(i) == (x || y));
    let mut c = a.clone();
    c ^= &b;
    assert!(c.test(i) == (x != y));
    let n = !a.clone();
    assert!(n.test(i) == !x);
    // count = number of set indices
    let mut cnt = 0usize;
    let mut k = 0;
    while k < N {
        cnt += wa[k].count_ones() as usize;
        k += 1;
    }
    assert!(a.count() == cnt);
    assert!((!a.clone()).count() == 64 * N - cnt);
    // equality <=> all bits equal
    let mut same = true;
    let mut k = 0;
    while k < N {
        if wa[k] != wb[k] {
            same = false;
        }
        k += 1;
    }
    assert!((a == b) == same);
    // constructors
    let z = Bitset::<N>::new();
    assert!(!z.test(i) && z.count() == 0);
    let d = Bitset::<N>::default();
    assert!(!d.test(i));
    let f = Bitset::<N>::from_u64(wa[0]);
    assert!(f.test(i) == (i < 64 && (wa[0] >> (i % 64)) & 1 == 1));
    kani::cover!(same, "equal operands reachable");
    kani::cover!(i >= 64 * (N - 1) && x && !y, "observer in the last word");
}

#[kani::proof]
#[kani::unwind(66)]
fn c12_binops_n1() {
    bin_ops::<1>();
}
#[kani::proof]
#[kani::unwind(66)]
fn c12_binops_n2() {
    bin_ops::<2>();
}
#[kani::proof]
#[kani::unwind(66)]
fn c12_binops_n3() {
    bin_ops::<3>();
}

/// k-th lowest set index of the words at or above `from`, or None
fn next_set<const N: usize>(w: &[u64; N], from: usize) -> Option<usize> {
    let mut k = 0;
    let mut best: Option<usize> = None;
    // scan words from the top down so that the lowest hit wins
    while k < N {
        let wi = N - 1 - k;
        let lo = 64 * wi;
        let word = if from >= lo + 64 {
            0
        } else if from <= lo {
            w[wi]
        } else {
            w[wi] & (u64::MAX << (from - lo))
        };
        if word != 0 {
            best = Some(lo + word.trailing_zeros() as usize);
        }
        k += 1;
    }
    best
}

/// iterator: on fully symbolic words the first three next() calls return the three lowest set indices
/// in ascending order, or None exactly when fewer remain (and None is sticky).
fn iter3<const N: usize>() {
    let w: [u64; N] = kani::any();
    let b = build(&w);
    let mut it = b.iter_bits();
    let mut from = 0usize;
    let mut step = 0;
    let mut ended = false;
    while step < 3 {
        let got = it.next();
        let exp = if ended { None } else { next_set(&w, from) };
        assert!(got == exp, "iterator yields the next set index in ascending order");
        match exp {
            Some(i) => from = i + 1,
            None => ended = true,
        }
        step += 1;
    }
    kani::cover!(!ended && from == 64 * N, "third yield is the very last bit");
    kani::cover!(ended, "ran out of set bits");
    kani::cover!(N == 1 || (!ended && from > 64 && from % 64 == 1), "yield at a word start after a boundary");
}

#[kani::proof]
#[kani::unwind(66)]
fn c12_iter_n1() {
    iter3::<1>();
}
#[kani::proof]
#[kani::unwind(66)]
fn c12_iter_n2() {
    iter3::<2>();
}
#[kani::proof]
#[kani::unwind(66)]
fn c12_iter_n3() {
    iter3::<3>();
}

/// whole-iterator run for popcount <= 4: ends with None and stays None; yields exactly popcount indices
fn iter_whole<const N: usize>() {
    let w: [u64; N] = kani::any();
    let mut pc = 0;
    let mut k = 0;
    while k < N {
        pc += w[k].count_ones();
        k += 1;
    }
    kani::assume(pc <= 4);
    let b = build(&w);
    let mut it = b.iter_bits();
    let mut from = 0usize;
    let mut n = 0u32;
    let mut step = 0;
    while step < 6 {
        match it.next() {
            Some(i) => {
                assert!(i >= from && i < 64 * N && bit(&w, i), "yielded index is a set bit, ascending");
                assert!(next_set(&w, from) == Some(i), "no set bit skipped");
                from = i + 1;
                n += 1;
            }
            None => {
                assert!(n == pc, "None only after every set bit was yielded");
            }
        }
        step += 1;
    }
    assert!(n == pc);
    kani::cover!(pc == 4 && bit(&w, 64 * N - 1) && bit(&w, 0), "first and last bit set");
}

#[kani::proof]
#[kani::unwind(66)]
fn c12_iterwhole_n1() {
    iter_whole::<1>();
}
#[kani::proof]
#[kani::unwind(66)]
fn c12_iterwhole_n2() {
    iter_whole::<2>();
}
#[kani::proof]
#[kani::unwind(66)]
fn c12_iterwhole_n3() {
    iter_whole::<3>();
}

#[kani::proof]
#[kani::unwind(66)]
fn c12_twin_false() {
    let w: [u64; 2] = kani::any();
    let mut b = build(&w);
    let i = any_index::<2>();
    let x = any_index::<2>();
    b.flip(x);
    assert!(b.test(i) == bit(&w, i) || i % 64 != 63, "twin: deliberately false");
}
