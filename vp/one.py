#!/usr/bin/env python3
"""debug helper: run single harnesses under the same caps as the checks: vp/one.py <group> <timeout> <harness>... [-- key=val]"""
import sys, os
sys.path.insert(0, os.path.dirname(os.path.dirname(os.path.abspath(__file__))))
from vp import kani
args = sys.argv[1:]
group, timeout = args[0], int(args[1])
hs = [a for a in args[2:] if not a.startswith("+")]
opts = [a[1:] for a in args[2:] if a.startswith("+")]
kw = {}
for o in opts:
    if o == "stub": kw["stubbing"] = True
    elif o == "nodbg": kw["dbg"] = False
    elif o.startswith("feat="): kw["features"] = o[5:].split(",")
    elif o.startswith("cbmc="): kw["cbmc_args"] = o[5:].split(",")
    elif o.startswith("expect="): kw["expect"] = o[7:]
pool = kani.Pool("dbg_" + group)
res = pool.run_all([kani.Ob(group, h, timeout=timeout, **kw) for h in hs])
for r in res:
    for f in r.failed[:6]:
        print("   failed:", f["desc"], "@", f["loc"][:100])
