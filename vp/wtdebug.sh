#!/bin/sh
# debugging aid: run a check against a stored change with python tracebacks visible: vp/wtdebug.sh <seeded id> <PROP> [extra check args]
id=$1; prop=$2; shift 2; wt=/tmp/wt/dbg_$id
git -C /repo worktree add -q --detach $wt HEAD && git -C $wt apply /verif/seeded/$id/patch.diff
VERIF_TRACEBACK=1 VERIF_REPO=$wt VERIF_NO_EVIDENCE=1 ./check $prop "$@" 2>&1 | tail -40
git -C /repo worktree remove --force $wt; rm -rf $wt
