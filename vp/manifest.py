#!/usr/bin/env python3
"""Regenerates MANIFEST.json from the table below (keeps it valid at all times)."""
import json, os
VERIF = os.path.dirname(os.path.dirname(os.path.abspath(__file__)))

CHECKS = {
 "C01": dict(engine="kani", design="DESIGN.md#c01",
   technique="bounded symbolic model checking of the compiled code (Kani/CBMC + CaDiCaL): arbitrary lazy state + one step, invariant re-checked on the node array (induction), free-monoid item",
   text="Kani proof harnesses over the real Segtree code instantiated at the free-monoid item (non-commutative merge, Add|Assign modifiers): a state with an arbitrary pending modifier on every node, then every modify(l,r)/set(p)/ask(l,r) with symbolic modifier/value; the representation invariant and the abstraction to the model array are re-established on the raw node array (hook), which closes the induction over histories; constructors are the base case; built-in items and the nested combinator against plain folds. n <= 5 (quick) / 8 (thorough).",
   note="Trusted: Kani/CBMC/CaDiCaL; parametricity of the container in the item type (meta-argument); hook Segtree::verif_nodes (read-only)."),
 "C02": dict(engine="kani", design="DESIGN.md#c02",
   technique="bounded symbolic model checking of the compiled code (Kani/CBMC + CaDiCaL): arbitrary lazy state, all start positions, monotone predicate family; the predicate asserts the aggregate it is shown",
   text="From an arbitrary lazy state (pending modifier on every node) the forward/backward boundary search is run for every start and a symbolic predicate from a monotone family; the closure itself asserts that the aggregate shown equals the model slice letter by letter, the result is compared with a linear scan, and the state invariant is re-checked. n <= 6 / 8; SumAdd threshold searches in addition.",
   note="Trusted: Kani/CBMC/CaDiCaL. Non-monotone predicates and items whose Default is not the identity are outside the API contract."),
 "C03": dict(engine="kani", design="DESIGN.md#c03",
   technique="bounded symbolic model checking of the compiled code (Kani/CBMC + CaDiCaL) on an exhaustively enumerated skeleton (tree shape x weak order of priorities x position) with symbolic letters and pending modifiers",
   text="Every binary-tree shape with <= 3 (quick) / 4 (thorough) nodes and every weak order of priorities consistent with the heap condition is a concrete pre-state built through the public node fields; letters and a pending non-commuting modifier on every node are symbolic. split_at/rotate, merge of every skeleton pair, split_by, insert_at, remove_at, first/last/collect/size and the split-modify-merge idiom are compared with the packed model sequence (aggregates, sizes, returned values, heap order).",
   note="Trusted: Kani/CBMC/CaDiCaL; completeness of the skeleton enumeration for the stated size; results depend on priorities only through pairwise comparisons (guarded syntactically)."),
 "C04": dict(engine="kani", design="DESIGN.md#c04",
   technique="bounded symbolic model checking of the compiled code (Kani/CBMC + CaDiCaL) of the generic FFT code instantiated at an exact field GF(7) in place of floats",
   text="The real generic FFT<F> is instantiated at the exact field GF(7) (Complex<F> then has genuine 8th roots of unity); multiply = convolution for all coefficient vectors at transform sizes 2/4, size 8 with one symbolic operand, call histories 2->8->2 and 8->4 on one object, additive *_into contract, fft/pointwise/fft_inv = multiply. Decides indexing, packing, conjugate unpacking, scaling, accumulation and table growth; the floating-point rounding envelope is NOT decided.",
   note="Trusted: Kani/CBMC/CaDiCaL; parametricity of FFT<F> in F. The f64/f32 rounding half of the property is outside the claim."),
 "C05": dict(engine="kani", design="DESIGN.md#c05",
   technique="bounded symbolic model checking of the compiled code (Kani/CBMC + CaDiCaL): inductive step from an arbitrary forest satisfying the depth invariant (hooked raw constructor)",
   text="From an arbitrary parent/size array satisfying J (forest, sz[root] = cardinality, depth <= log2 size) one un/par/check/size with arbitrary arguments: return value, resulting partition, representatives, and J again; reset (grow/shrink/zero), clone and new as base cases. n <= 4/5 (quick), 6 (thorough).",
   note="Trusted: Kani/CBMC/CaDiCaL; hooks DSU::verif_raw / verif_from_raw; J is the invariant (inductive: base + step are both checked)."),
 "C06": dict(engine="kani+mirsym", design="DESIGN.md#c06",
   technique="bounded symbolic model checking of the compiled code (Kani/CBMC + CaDiCaL), one instantiation per modulus; all operands symbolic",
   text="Per modulus (small primes/composites, powers of two, both competition primes, 2^31-2, 2^31-1): new(v) for every i64, + - neg * and assigning forms against division-free/shared-term specifications, inverse and division for every unit (windows at large moduli), pow against the naive product and against a Fermat-reduced reference for every 64-bit exponent at small primes.",
   note="Trusted: Kani/CBMC/CaDiCaL. new,+,-,neg,*,assigning forms,==,Readable,Writable are additionally decided for EVERY modulus 2<=M<2^31 on the MIR with a symbolic modulus (z3); inv,/ and pow per listed modulus only; Display outside."),
 "C07": dict(engine="kani", design="DESIGN.md#c07",
   technique="bounded symbolic model checking of the compiled code (Kani/CBMC + CaDiCaL): symbolic fractions, cross-multiplication in a wider type",
   text="For T in {i8,i16} (all operators; i64 constructor and floor/ceil in quick; i64, i32, i128 in thorough) and all fractions with bounded components and denominators of either sign: every operator form returns the exact value in lowest terms with a positive denominator, cmp is the numeric order and consistent with ==, equal values hash identically, floor/ceil are exact.",
   note="Trusted: Kani/CBMC/CaDiCaL. Components <= 7 (i8, i64) / 10 (i16, i32) / 5 (i128); larger magnitudes outside (Euclid with symbolic division is the cost driver)."),
 "C08": dict(engine="mirsym", design="DESIGN.md#c08",
   technique="path-wise symbolic execution of the nightly MIR of rlib_io with z3: byte contents, chunk schedule and Interrupted faults are symbolic/forked inputs",
   text="mirsym executes the MIR of Reader path by path: input bytes symbolic over an alphabet, the read stub forks over every chunk length and over Interrupted; per path the solver decides equality with a reference parse, equality with the whole-input schedule (schedule independence), and panic freedom. Counterexamples are replayed against the native build through a scripted Read adaptor.",
   note="Trusted: rustc's MIR dump as semantics; mirsym interpreter + ~45 std models (validated per run against the native build on concrete inputs); z3."),
 "C09": dict(engine="mirsym", design="DESIGN.md#c09",
   technique="path-wise symbolic execution of the MIR of rlib_io::Writer (and Reader for the round trip) with z3/cvc5; values parametrised by decimal digits",
   text="mirsym executes the MIR of Writer from constructed pre-states end = 65536-k (k <= 45) with a recording sink: the sink equals the prefix followed by the reference renderings for every piece sequence explored, for both MIR variants (debug flush-per-write, release buffered); every value of all 12 integer types is rendered (one path per sign and digit count) and read back through the MIR of Reader.",
   note="Trusted: MIR dump; mirsym + models (validated per run against native dev and release builds); decimal-structure lemmas applied by the interpreter (instances discharged by z3/cvc5 where they terminate); partial-write/Interrupted retry is write_all's contract."),
 "C11": dict(engine="kani", design="DESIGN.md#c11",
   technique="bounded symbolic model checking of the compiled code (Kani/CBMC + CaDiCaL): symbolic operands, Bezout witness re-checked in a wider type",
   text="gcd/lcm/egcd/crt at signed and unsigned types with symbolic operands within magnitude bounds: non-negativity, divisibility, greatest via a Bezout pair from the real egcd, lcm*gcd=|ab|, a*x+b*y=c exactly and None iff gcd does not divide c, CRT solution in [0,lcm) satisfying both congruences and None iff incompatible.",
   note="Trusted: Kani/CBMC/CaDiCaL. Magnitudes <= 31/15, moduli <= 12 (quick); full i8/u8 in thorough."),
 "C12": dict(engine="kani", design="DESIGN.md#c12",
   technique="bounded symbolic model checking of the compiled code (Kani/CBMC + CaDiCaL): arbitrary words, symbolic operation and observer indices; the 0/1 rendering by symbolic execution of the MIR of Display/Debug (mirsym + z3) with symbolic words",
   text="For N in {1,2,3} words with arbitrary contents: point operations, binary operators and assigning forms, complement, count, equality, constructors observed at a symbolic index; the iterator's first three yields on arbitrary words and whole runs for popcount <= 4. Display and Debug: fmt, its closure and Bitset::test run on the MIR; the text has 64N characters and character i is '1' exactly when i is a member, for all word contents.",
   note="Trusted: Kani/CBMC/CaDiCaL; for the rendering: the MIR dump and the models of Range::map, collect, to_string, join, the format-argument plumbing (template decoding) and write_fmt. N > 3 (rendering: N > 4) is outside."),
 "C13": dict(engine="mirsym", design="DESIGN.md#c13",
   technique="symbolic execution of the MIR of rlib_sieve with the limit enumerated and the query arguments symbolic (z3)",
   text="For every limit N <= 64 (quick) / 300 (thorough) Sieve::new(N) is executed on its MIR; then for symbolic n (and d) the solver decides that the table entry is the least prime factor, primality flags agree, and factorize(n) yields increasing primes whose powers multiply to n, for every n <= N at once; the prime list is compared with trial division. Large limits N = 65600 (quick) and 1048640 (thorough): the same obligations with n symbolic in windows around every power of two and three, at the limit and at 10^6 (table reads at a symbolic index are built over the feasible index interval, found by solver queries).",
   note="Trusted: MIR dump; mirsym interpreter + Vec/Range models (every counterexample replayed natively); z3. Limits other than the enumerated ones, and at the large limits values of n outside the windows, are outside."),
 "C14": dict(engine="kani+mirsym", design="DESIGN.md#c14",
   technique="bounded symbolic model checking of the compiled code (Kani/CBMC + CaDiCaL): symbolic bounds x raw output; existential claims as cover goals over all 2^64 seeds",
   text="Every integer type and range form: draw inside the range for every raw output, every value reachable (Skolem witness); f64 half-open range for all finite bounds; shuffle is a permutation for every seed, every arrangement of 3 and 4 elements reachable by some seed, small-range draws not periodic (cover goals that must be satisfiable).",
   note="Trusted: Kani/CBMC/CaDiCaL incl. CBMC's IEEE double semantics. Near-equal frequency is not decided. Seed determinism is decided on the MIR of rlib_rand with z3 (under CBMC it needs two multiplier chains proved equal: no verdict)."),
 "C15": dict(engine="kani", design="DESIGN.md#c15",
   technique="bounded symbolic model checking of the compiled code (Kani/CBMC + CaDiCaL): masks with bounded popcount at symbolic positions, all widths; symbolic sequences",
   text="Sub/supermask iteration at all 12 integer types for masks with popcount <= 4 at arbitrary positions: first, last, strict unsigned order, containment and count; next_permutation as the lexicographic successor with minimality over a symbolic competitor (length <= 6, 3 letters); iter_permutations; grid neighbours for all n,m <= 2^62.",
   note="Trusted: Kani/CBMC/CaDiCaL."),
 "C16": dict(engine="kani", design="DESIGN.md#c16",
   technique="bounded symbolic model checking of the compiled code (Kani/CBMC + CaDiCaL) on enumerated skeletons (heap order of every output) + existential cover goals over all generator states",
   text="Heap order (parent <= child on every edge) is asserted for every output tree of every C03 instance; the priority source is checked through existential goals over all 2^64 generator states (all order patterns of three consecutive priorities reachable, top bit and both halves vary) and the first node priorities of a process. The logarithmic height bound on 10^6-element histories is NOT decided.",
   note="Trusted: Kani/CBMC/CaDiCaL. Detects broken heap maintenance and degenerate priority sources, not insufficient randomness."),
 "C17": dict(engine="mirsym", design="DESIGN.md#c17",
   technique="schedule exploration on the MIR (two interpreter threads, fork at every access to process-wide memory) with a symbolic generator state; z3 for the outcome verdict",
   text="mirsym runs two interpreter threads over the MIR of TreapNode::new -> gen_priority -> next_raw and explores every sequentially consistent interleaving of their accesses to process-wide memory: no reachable point where both threads' next accesses conflict unsynchronised (data race), and for every initial generator state the priorities obtained equal those of some sequential order of the calls. A self-test on the recorded racy MIR must find both defects. Self-tests on five recorded MIR fixtures (racy static mut, split Mutex section, atomic lost update must be reported; single Mutex section, CAS retry loop must pass) run first. A data race is confirmed with Miri, an outcome violation without a memory-level race with a native 4-thread stress run.",
   note="Trusted: MIR dump; the thread_local!/Cell, RefCell, Mutex and scalar-atomic models; sequential consistency. Other synchronisation (RwLock, Condvar, arrays of atomics) is inconclusive. 2 threads x <= 2 creations."),
 "C18": dict(engine="x87sym", design="DESIGN.md#c18",
   technique="symbolic execution of the MIR of rlib_f80 (mirsym) with every asm! terminator interpreted instruction by instruction over SMT-LIB FloatingPoint(15,64) (x87sym), z3; all pairs of f64 bit patterns, and all f80 values for comparisons/abs/neg/min/max/narrowing",
   text="The Rust glue of rlib_f80 is executed on the dumped MIR and each asm! template (after macro expansion) on a symbolic x87 register stack; proved, for all pairs of f64 bit patterns, that each arithmetic operator equals the correctly rounded IEEE result on the widened operands (operand order, signed zeros), conversions are exact/correctly rounded, and <, <=, >, >=, partial_cmp, ==, !=, min, max, abs follow the IEEE order.",
   note="Trusted: the instruction-semantics table (about 20 x87 instructions); z3's FloatingPoint theory (validated per run against the real FPU on a boundary set); default x87 control word."),
 "C19": dict(engine="kani", design="DESIGN.md#c19",
   technique="bounded symbolic model checking of the compiled code (Kani/CBMC + CaDiCaL): symbolic shapes, indices and elements",
   text="Every obligation is a Kani proof harness over the real Tensor code with symbolic extents (rank 1-4, extents <= 3-5), symbolic index pairs and symbolic elements: row-major bijection, write/read, iteration order, constructor layout, rejection of out-of-range indices per dimension, constructor rejections, equality iff shape and elements agree.",
   note="Trusted: Kani/CBMC/CaDiCaL. Element type u8. Text IO round trip not covered here."),
 "C20": dict(engine="kani", design="DESIGN.md#c20",
   technique="bounded symbolic model checking of the compiled code (Kani/CBMC + CaDiCaL) on generated harnesses, one per macro invocation shape; rustc decides that each shape expands",
   text="One generated harness per rec_lambda! shape (capture pattern over {&,&mut}^k in every order, 1..4 arguments, return type or none, both call syntaxes: 124 quick / 496 thorough): the closure's result and the final state of every mutable capture equal a hand-written recursive fn from the same template, for symbolic arguments and captured values, recursion depth <= 4.",
   note="Trusted: Kani/CBMC/CaDiCaL; rustc for expansion."),
}
NOT_APPLICABLE = [
 {"property_id": "C10", "reason": "IEEE-754 double sqrt/division chains with 1e-7/1e-9 tolerance assertions: CBMC float bit-blasting timed out on the smallest kernel (line-line on a 7x7 lattice, 280 s) and modelling doubles as reals is unsound; no solver-based engine in the image decides it"},
]

def main():
    props = [json.loads(l)["id"] for l in open(os.path.join(VERIF, "properties.jsonl"))]
    checks = []
    for pid in props:
        if pid not in CHECKS:
            continue
        c = CHECKS[pid]
        checks.append({
            "property_id": pid,
            "quick_cmd": "./check %s --tier quick" % pid,
            "thorough_cmd": "./check %s --tier thorough" % pid,
            "evidence_file": "evidence/%s.json" % pid,
            "replay_cmd_template": "./check %s --replay {path}" % pid,
            "engine": c["engine"],
            "level_claimed": {"category": "model_checking", "text": c["text"], "design_ref": c["design"]},
            "level_note": c["note"],
            "technique": c["technique"],
        })
    na = list(NOT_APPLICABLE)
    listed = {x["property_id"] for x in na}
    for pid in props:
        if pid not in CHECKS and pid not in listed:
            na.append({"property_id": pid, "reason": "check not built yet in this tree (planned, see DESIGN.md); not claimed"})
    m = {
        "version": 1,
        "setup_cmd": "./setup.sh",
        "hooks": {"guard": "cargo feature `verif` (rlib_segtree, rlib_dsu), off by default",
                  "enable": "harness crates under /verif/harness depend on /repo/rlib/* by path with features=[\"verif\"]",
                  "baseline_off_cmd": "cd /repo && cargo test --workspace --no-fail-fast --offline",
                  "source_commits": HOOK_COMMITS, "add_only": True},
        "engines": [
            {"name": "kani", "path": "harness/ + vp/kani.py", "serves_properties": [p for p in props if p in CHECKS and "kani" in CHECKS[p]["engine"]],
             "kind_free_text": "Kani 0.68 proof harnesses (CBMC 6.11 + CaDiCaL) over the real crates by path dependency; one obligation per harness, bounded, unwinding assertions on"},
            {"name": "mirsym", "path": "mirsym/", "serves_properties": [p for p in props if p in CHECKS and "mirsym" in CHECKS[p]["engine"]],
             "kind_free_text": "path-wise symbolic executor over the nightly MIR dump of rlib crates, z3/cvc5"},
            {"name": "x87sym", "path": "x87/", "serves_properties": [p for p in props if p in CHECKS and "x87sym" in CHECKS[p]["engine"]],
             "kind_free_text": "symbolic interpreter for the x87 asm! templates of rlib_f80 over SMT-LIB FloatingPoint(15,64)"},
        ],
        "checks": checks,
        "not_applicable": na,
        "notes": "Exit codes of every check: 0 pass within bounds, 1 replay-confirmed violation (VIOLATION line), 2 inconclusive (INCONCLUSIVE line; never a pass). Genuine defects found and repaired are listed in known_findings.json under 'fixed'.",
    }
    json.dump(m, open(os.path.join(VERIF, "MANIFEST.json"), "w"), indent=1)

HOOK_COMMITS = ["a2b0636", "0e44c93"]
if __name__ == "__main__":
    main()
