#!/usr/bin/env python3
"""Regenerates MANIFEST.json from the table below (keeps it valid at all times)."""
import json, os
VERIF = os.path.dirname(os.path.dirname(os.path.abspath(__file__)))

CHECKS = {
 "C19": dict(engine="kani", design="DESIGN.md#c19",
   technique="bounded symbolic model checking of the compiled code (Kani/CBMC + CaDiCaL): symbolic shapes, indices and elements",
   text="Every obligation is a Kani proof harness over the real Tensor code with symbolic extents (rank 1-4, extents <= 3-5), symbolic index pairs and symbolic elements; CBMC decides it for all values inside those bounds (unwinding assertions on). Covers: row-major bijection, write/read, iteration order, constructor layout, rejection of out-of-range indices per dimension, constructor rejections, equality iff shape and elements agree.",
   note="Trusted: Kani's MIR->goto translation, CBMC, CaDiCaL. Element type u8. Pointer checks off (safe Rust). Text IO round trip not covered here."),
}
NOT_APPLICABLE = [
 {"property_id": "C10", "reason": "IEEE-754 double sqrt/division chains with 1e-7/1e-9 tolerance assertions: CBMC float bit-blasting timed out on the smallest kernel (line-line on a 7x7 lattice, 280 s) and modelling doubles as reals is unsound; no solver-based engine in the image decides it"},
]

def main():
    props = [json.loads(l)["id"] for l in open(os.path.join(VERIF, "properties.jsonl"))]
    checks = []
    for pid in props:
        if pid not in CHECKS:
            continue
        c = CHECKS[pid]
        checks.append({
            "property_id": pid,
            "quick_cmd": "./check %s --tier quick" % pid,
            "thorough_cmd": "./check %s --tier thorough" % pid,
            "evidence_file": "evidence/%s.json" % pid,
            "replay_cmd_template": "./check %s --replay {path}" % pid,
            "engine": c["engine"],
            "level_claimed": {"category": "model_checking", "text": c["text"], "design_ref": c["design"]},
            "level_note": c["note"],
            "technique": c["technique"],
        })
    na = list(NOT_APPLICABLE)
    listed = {x["property_id"] for x in na}
    for pid in props:
        if pid not in CHECKS and pid not in listed:
            na.append({"property_id": pid, "reason": "check not built yet in this tree (planned, see DESIGN.md); not claimed"})
    m = {
        "version": 1,
        "setup_cmd": "./setup.sh",
        "hooks": {"guard": "cargo feature `verif` (rlib_segtree, rlib_dsu) and `verif_small_buf` (rlib_io), off by default",
                  "enable": "harness crates under /verif/harness depend on /repo/rlib/* by path with features=[\"verif\"]",
                  "baseline_off_cmd": "cd /repo && cargo test --workspace --no-fail-fast --offline",
                  "source_commits": HOOK_COMMITS, "add_only": True},
        "engines": [
            {"name": "kani", "path": "harness/ + vp/kani.py", "serves_properties": [p for p in props if p in CHECKS and "kani" in CHECKS[p]["engine"]],
             "kind_free_text": "Kani 0.68 proof harnesses (CBMC 6.11 + CaDiCaL) over the real crates by path dependency; one obligation per harness, bounded, unwinding assertions on"},
            {"name": "mirsym", "path": "mirsym/", "serves_properties": [p for p in props if p in CHECKS and "mirsym" in CHECKS[p]["engine"]],
             "kind_free_text": "path-wise symbolic executor over the nightly MIR dump of rlib crates, z3/cvc5"},
            {"name": "x87sym", "path": "x87/", "serves_properties": [p for p in props if p in CHECKS and "x87sym" in CHECKS[p]["engine"]],
             "kind_free_text": "symbolic interpreter for the x87 asm! templates of rlib_f80 over SMT-LIB FloatingPoint(15,64)"},
        ],
        "checks": checks,
        "not_applicable": na,
        "notes": "Exit codes of every check: 0 pass within bounds, 1 replay-confirmed violation (VIOLATION line), 2 inconclusive (INCONCLUSIVE line; never a pass). Genuine defects found and repaired are listed in known_findings.json under 'fixed'.",
    }
    json.dump(m, open(os.path.join(VERIF, "MANIFEST.json"), "w"), indent=1)

HOOK_COMMITS = []
if __name__ == "__main__":
    main()
