#!/bin/sh
# run every registered quick command on /repo as it is, then validate the evidence files; used before committing evidence
cd "$(dirname "$0")/.."
for p in $(python3 -c "import json; print(' '.join(c['property_id'] for c in json.load(open('MANIFEST.json'))['checks']))"); do
  ./check $p --tier quick > .build/q_$p.out 2>&1; echo "$p exit=$? $(tail -1 .build/q_$p.out)"
done
python3-vt - <<'PY'
import json, jsonschema, glob
sch = json.load(open('/root/.vp/EVIDENCE.schema.json'))
for f in sorted(glob.glob('evidence/*.json')):
    d = json.load(open(f))
    try:
        jsonschema.validate(d, sch)
        ok = d['violations'] == 0 and not d['coverage']['inconclusive'] and d['coverage']['obligations'] == d['coverage']['discharged']
        print(f, 'valid', 'clean' if ok else 'NOT-CLEAN', d['tier'], d['coverage']['obligations'])
    except Exception as e:
        print(f, 'INVALID', str(e)[:200])
PY
