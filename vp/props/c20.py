import os, sys
from vp.kani import Ob, VERIF
sys.path.insert(0, os.path.join(VERIF, "vp"))

META = {
    "functions_encoded": ["rlib_lambda::{rec_lambda!, _rec_lambda_0_!, _rec_lambda_1_!, _rec_lambda_2_!} by expansion: one generated harness per invocation shape"],
    "bounds": {"quick": "all 31 capture patterns over {&,&mut}^k, k<=4, in every order x {1,3} arguments x {return type, none}, call syntax alternating (124 shapes); arguments and captured values symbolic (u32), recursion depth <= 4",
               "thorough": "all 496 shapes (31 patterns x 1..4 arguments x return/none x both call syntaxes)"},
    "outside_claim": ["generic or lifetime-parameterised capture types", "more than 4 captures or arguments", "bodies other than the generated template (reads every shared capture, updates every mutable capture, branches on arguments, one recursive call site)"],
    "stubs_and_assumes": ["that every shape COMPILES is decided by rustc when the harness crate builds (a shape that fails to expand fails every obligation with the compiler error)"],
    "assumptions": ["Kani/CBMC translation of MIR is faithful"],
}


def obligations(tier, seed):
    import gen_lam
    names, shapes = gen_lam.main(os.path.join(VERIF, "harness", "lam", "src", "gen.rs"))
    obs = []
    k = 0
    for name, (pat, nargs, ret, trailing) in zip(names, shapes):
        if tier == "quick":
            if nargs not in (1, 3):
                continue
            # alternate the call syntax over the selected shapes (seed rotates which half gets the trailing comma)
            want_tc = (sum(1 for p in pat if p == "m") + len(pat) + nargs + int(ret) + seed) % 2 == 1
            if trailing != want_tc:
                continue
        obs.append(Ob("lam", "gen::" + name, covers=1, timeout=1200, desc="closure = explicit recursion: result and final state of every mutable capture",
                      bounds="captures=%s args=%d %s %s" % ("".join(pat) or "none", nargs, "ret" if ret else "unit", "trailing-comma" if trailing else "plain-call")))
    obs.append(Ob("lam", "gen::c20_twin_false", expect="fail", desc="deliberately false twin"))
    META["skeletons_enumerated"] = {"shapes": len(obs) - 1, "of": 496, "exhaustive_within_bound": tier == "thorough"}
    return obs
