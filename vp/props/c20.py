import os, sys
from vp.kani import Ob, VERIF
sys.path.insert(0, os.path.join(VERIF, "vp"))

META = {
    "functions_encoded": ["rlib_lambda::{rec_lambda!, _rec_lambda_0_!, _rec_lambda_1_!, _rec_lambda_2_!} by expansion: one generated harness per invocation shape"],
    "bounds": {"quick": "all 31 capture patterns over {&,&mut}^k, k<=4, in every order x {1,3} arguments x {return type, none}, call syntax alternating (124 shapes); arguments and captured values symbolic (u32), recursion depth <= 4",
               "thorough": "all 496 shapes (31 patterns x 1..4 arguments x return/none x both call syntaxes)"},
    "outside_claim": ["generic or lifetime-parameterised capture types", "more than 4 captures or arguments", "bodies other than the generated template (reads every shared capture, updates every mutable capture, branches on arguments, one recursive call site)"],
    "stubs_and_assumes": ["that every shape COMPILES is decided by rustc when the harness crate builds (a shape that fails to expand fails every obligation with the compiler error)"],
    "assumptions": ["Kani/CBMC translation of MIR is faithful"],
}


def obligations(tier, seed):
    import gen_lam
    names, shapes = gen_lam.main(os.path.join(VERIF, "harness", "lam", "src", "gen.rs"))
    obs = []
    k = 0
    for name, (pat, nargs, ret, trailing) in zip(names, shapes):
        if tier == "quick":
            if nargs not in (1, 3):
                continue
            # alternate the call syntax over the selected shapes (seed rotates which half gets the trailing comma)
            want_tc = (sum(1 for p in pat if p == "m") + len(pat) + nargs + int(ret) + seed) % 2 == 1
            if trailing != want_tc:
                continue
        obs.append(Ob("lam", "gen::" + name, covers=1, timeout=1200, desc="closure = explicit recursion: result and final state of every mutable capture",
                      bounds="captures=%s args=%d %s %s" % ("".join(pat) or "none", nargs, "ret" if ret else "unit", "trailing-comma" if trailing else "plain-call")))
    obs.append(Ob("lam", "gen::c20_twin_false", expect="fail", desc="deliberately false twin"))
    META["skeletons_enumerated"] = {"shapes": len(obs) - 1, "of": 496, "exhaustive_within_bound": tier == "thorough"}
    return obs


def run_engine(tier, seed, known, only):
    """expansion + native cross-check: all 496 shapes as plain tests compiled by rustc (a shape that does not expand is a
    violation of 'the generated closure compiles'; the failing shape and the compiler message are the replay)"""
    import subprocess, re, json, time
    import gen_lam
    from vp import kani as _k
    out = {"records": [], "violations": [], "known": [], "inconclusive": []}
    t0 = time.time()
    crate = _k.crate_dir("lam")
    os.makedirs(os.path.join(crate, "tests"), exist_ok=True)
    gen_lam.main_native(os.path.join(crate, "tests", "native_shapes.rs"))
    env = dict(os.environ); env["CARGO_NET_OFFLINE"] = "true"
    p = subprocess.run(["cargo", "test", "--offline", "--target-dir", os.path.join(_k.BUILD, "C20", "native"), "--test", "native_shapes"], cwd=crate, env=env,
                       stdout=subprocess.PIPE, stderr=subprocess.STDOUT, text=True, timeout=1800)
    txt = p.stdout
    rec = {"name": "expansion + native cross-check of all 496 shapes", "engine": "rustc", "status": "PASS", "ok": True, "queries": 496, "time": time.time() - t0,
           "desc": "every shape expands (rustc) and the closure equals the explicit recursion on concrete values", "bounds": "496 shapes x 4 depths x 3 seeds"}
    m = re.search(r"test result: ok\. (\d+) passed; 0 failed", txt)
    if m and int(m.group(1)) == 496:
        pass
    else:
        errs = re.findall(r"^(error(?:\[E\d+\])?: .*)$", txt, re.M)
        failed = re.findall(r"^test (n20_\w+) \.\.\. FAILED$", txt, re.M)
        lines = re.findall(r"--> tests/native_shapes\.rs:(\d+):", txt)
        shapes = []
        if lines:
            src = open(os.path.join(crate, "tests", "native_shapes.rs")).read().split("\n")
            for ln in lines[:6]:
                k = int(ln)
                while k > 0 and not src[k - 1].startswith("fn n20_"):
                    k -= 1
                shapes.append(src[k - 1][3:].split("(")[0] if k > 0 else "?")
        rec.update(status="FAIL", ok=False, violation={"compile_errors": errs[:5], "shapes": sorted(set(shapes))[:8], "failed_tests": failed[:8]})
        if errs or failed:
            rdir = os.path.join(_k.VERIF, "replays", "C20"); os.makedirs(rdir, exist_ok=True)
            path = os.path.join(rdir, "expansion.json")
            json.dump({"property": "C20", "shapes_that_do_not_expand": sorted(set(shapes)), "failed_tests": failed, "compiler": errs[:10],
                       "how": "cd harness/lam && cargo test --offline --test native_shapes"}, open(path, "w"), indent=1)
            out["violations"].append("VIOLATION property=C20 replay=%s" % os.path.relpath(path, _k.VERIF))
        else:
            out["inconclusive"].append({"obligation": rec["name"], "reason": "native shapes test neither passed nor failed cleanly: " + txt[-300:]})
    out["records"].append(rec)
    return out
