from vp.kani import Ob

META = {
    "functions_encoded": ["rlib_segtree::Segtree::{lower_bound,lower_bound_internal,lower_bound_rev,lower_bound_rev_internal,push_at,from_slice,modify}", "segtree_items::SumAdd"],
    "bounds": {"quick": "free-monoid item: every lazy state x every start l (resp. end r) x predicate family {len>=k, contains letter c, true, false}, n in 1..=6; SumAdd threshold search n=5",
               "thorough": "n in 1..=8; SumAdd n=8"},
    "outside_claim": ["n > 8", "non-monotone predicates", "items whose Default is not the merge identity"],
    "stubs_and_assumes": ["the predicate closure itself asserts that the aggregate it is shown equals the model slice letter by letter"],
    "assumptions": ["Kani/CBMC translation of MIR is faithful"],
}


def obligations(tier, seed):
    obs = []
    def add(h, **kw):
        kw.setdefault("timeout", 1500 if tier == "quick" else 4000)
        obs.append(Ob("seg", "c02::" + h, **kw))
    ns = range(1, 7) if tier == "quick" else range(1, 9)
    for n in ns:
        add("c02_fwd_n%d" % n, covers=3, desc="forward search: smallest r, aggregate shown = in-order merge of [l, r'], pending modifiers everywhere", bounds="n=%d" % n)
        add("c02_bwd_n%d" % n, covers=3, desc="backward search: largest l", bounds="n=%d" % n)
    for h in ("c02_hist_fwd_n4", "c02_hist_bwd_n4", "c02_hist_fwd_n5"):
        add(h, desc="search after two overlapping range modifications on top of an arbitrary lazy state", bounds=h[-2:])
    add("c02_sumadd_fwd_n5", covers=1, desc="SumAdd<i16> threshold search with pending adds", bounds="n=5")
    add("c02_sumadd_bwd_n5", covers=1, desc="SumAdd<i16> threshold search (reverse)", bounds="n=5")
    add("c02_twin_false", expect="fail", desc="deliberately false twin")
    if tier == "thorough":
        add("c02_sumadd_fwd_n8", covers=1, desc="SumAdd", bounds="n=8")
        add("c02_sumadd_bwd_n8", covers=1, desc="SumAdd", bounds="n=8")
    return obs
