"""C08 — Reader results depend only on the input bytes (engine: mirsym on the MIR of rlib_io)."""
import os, sys, time, json, subprocess, hashlib
from concurrent.futures import ProcessPoolExecutor

VERIF = os.path.dirname(os.path.dirname(os.path.dirname(os.path.abspath(__file__))))
sys.path.insert(0, VERIF)
from vp import kani as _k
BUILD = os.path.join(_k.BUILD, "C08")

META = {
    "functions_encoded": ["MIR of rlib_io::Reader::{new,read,read_line,read_lines,read_vec,is_eof,refill,skip_whitespace,peek}",
                          "MIR of <String|char|i8..i128|u8..u128|isize|usize|tuples as Readable>::read"],
    "bounds": {"quick": "input length L<=4 over the alphabet {space,TAB,LF,CR,'-',0-9,'a','z'}; every chunking of the stream; one Interrupted fault at any read call; scripts of <=3 operations",
               "thorough": "L<=6 (line scripts) / L<=5 (token scripts), all 12 integer types, tuples of arity 2, 3 and 8, read_vec, read_lines, both MIR variants (debug assertions on/off), up to 2 faults"},
    "outside_claim": ["inputs longer than the bound; non-ASCII bytes", "token reads when no valid token of the requested type remains (API precondition; such inputs are pruned by the reference)",
                      "the 64 KiB buffer boundary is only exercised through constructed start states begin=end=BUF-k (refill compacts before reading, so the buffer is never full at a refill)",
                      "std iterator adaptors of read_lines (map_while/collect) and Vec/String are modelled, not executed"],
    "stubs_and_assumes": ["<Box<dyn Read>>::read = environment stub forking over every chunk length 1..=min(remaining, space), Ok(0) only at end of input, Err(Interrupted) optionally",
                          "~40 std callees have hand-written models (mirsym/iomodel.py); any other construct aborts the run as inconclusive"],
    "assumptions": ["rustc's MIR dump (-Zunpretty=mir, nightly) is the semantics of the compiled code", "mirsym's MIR interpreter and std models are faithful (validated per run against the native build on concrete inputs)"],
}

ALPHABET = [32, 9, 10, 13, 45] + list(range(48, 58)) + [97, 122]
INTS = ["i8", "i16", "i32", "i64", "i128", "isize", "u8", "u16", "u32", "u64", "u128", "usize"]


def tasks_for(tier):
    T = []
    def add(L, script, faults=0, start_k=None, dbg=False, max_chunk=None):
        T.append(dict(L=L, script=script, faults=faults, start_k=start_k, dbg=dbg, max_chunk=max_chunk))
    line, eof = ('line',), ('eof',)
    R = lambda t: ('read', t)
    Lmax = 4 if tier == "quick" else 6
    for L in range(1, Lmax + 1):
        add(L, [line] * min(L + 1, 4))
    add(3, [line, line, line], faults=1)
    add(2, [eof], faults=1)
    add(3, [R('i32'), eof], faults=1)
    add(4, [eof, R('i8'), eof])
    add(4, [R('i32'), R('i32')])
    add(4, [R('u8'), line, eof])
    add(4, [R('String'), line])
    add(4, [R('char'), R('char'), eof])
    add(4, [R('(i32, i32)')])
    add(4, [('vec', 'u8', 2), eof])
    add(3, [('lines',)])
    add(4, [R('i16'), eof], start_k=1)
    add(3, [line, line], start_k=3)
    add(3, [R('i64'), line], dbg=True)
    add(3, [R('String'), R('char')], dbg=True)
    if tier == "thorough":
        for t in INTS:
            add(5, [R(t), eof])
            add(4, [eof, R(t), line], dbg=True)
        add(5, [R('String'), line, line])
        add(5, [R('(i8, String)'), eof])
        add(5, [R('(u8, char, i16)')])
        add(6, [('lines',)])
        add(5, [('vec', 'i32', 2), line])
        add(4, [line, R('i32'), line], faults=2)
        add(5, [R('i32'), R('i32'), eof], faults=1, max_chunk=2)
        add(5, [eof, R('i8'), eof], start_k=2)
    return T


def mir_path(dbg):
    return os.path.join(BUILD, "mir", "io_%s.mir" % ("dbg" if dbg else "rel"))


def run_task(t):
    sys.path.insert(0, VERIF)
    from mirsym.iomodel import IoProgram
    from mirsym.reader_check import ReaderCheck, script_name
    from mirsym.core import Unsupported, PathLimit
    t0 = time.time()
    name = "%s L=%d faults=%d start_k=%s mir=%s" % (script_name(t["script"]), t["L"], t["faults"], t["start_k"], "dbg" if t["dbg"] else "rel")
    try:
        prog = IoProgram(open(mir_path(t["dbg"])).read())
        rc = ReaderCheck(prog, ALPHABET, prog.buf_size('reader'))
        r = rc.check_script(t["L"], t["script"], t["faults"], t["start_k"], max_chunk=t["max_chunk"])
        return dict(name=name, ok=True, paths=r["paths"], explored=r["explored"], pruned=r["pruned"], cases=r["cases"],
                    obligations=r["obligations"], queries=prog.nq + rc.queries, solver_time=prog.solver_time + rc.qtime,
                    violations=r["violations"], time=time.time() - t0, fns=sorted(prog.used_fns), models=sorted(prog.used_models))
    except (Unsupported, PathLimit) as e:
        return dict(name=name, ok=False, error="%s: %s" % (type(e).__name__, e), time=time.time() - t0)


def sched_str(s):
    return ",".join("i" if c == "intr" else str(c) for c in s) or "-"


def native(bytes_, sched, script):
    exe = os.path.join(BUILD, "ioreplay", "debug", "vh_ioreplay")
    hexs = "".join("%02x" % b for b in bytes_) or "-"
    p = subprocess.run([exe, "read", hexs, sched_str(sched), script], stdout=subprocess.PIPE, stderr=subprocess.PIPE, text=True, timeout=60)
    return p.stdout.strip().splitlines()


def classify(v):
    """role of a violation, used to match known_findings.json"""
    if v["kind"] == "panic" and "intr" in v["schedule"] and "unwrap" in v["detail"]:
        return "interrupted-panic"
    if v["kind"] in ("schedule-dependence", "reference-mismatch") and v.get("bytes") and v["bytes"][-1] == 13 and ("l" in v["script"].split(";") or "L" in v["script"]):
        return "stale-peek-lone-cr-at-eof"
    return v["kind"]


def replay_violation(v):
    """native replay against the real build; returns (reproduced, text)"""
    if v.get("bytes") is None:
        return None, "no model"
    if v["kind"] == "panic":
        out = native(v["bytes"], v["schedule"], v["script"])
        return ("PANIC" in out), "native: %s" % out
    if v["kind"] == "schedule-dependence":
        a = native(v["bytes"], v["schedule"], v["script"])
        b = native(v["bytes"], v["schedule_b"], v["script"])
        return (a != b), "native schedule %s -> %s ; schedule %s -> %s" % (sched_str(v["schedule"]), a, sched_str(v["schedule_b"]), b)
    out = native(v["bytes"], v["schedule"], v["script"])
    exp = [e.replace("char:", "char:") for e in v["expected"]]
    return (out != exp), "native: %s expected(reference): %s" % (out, exp)


def write_replay(prop, v, text, idx):
    rdir = os.path.join(VERIF, "replays", prop)
    os.makedirs(rdir, exist_ok=True)
    h = hashlib.sha1(json.dumps(v, sort_keys=True, default=str).encode()).hexdigest()[:8]
    path = os.path.join(rdir, "reader_%s_%s.json" % (v["kind"], h))
    json.dump({"property": prop, "violation": v, "native": text,
               "how": "./check %s --replay %s" % (prop, os.path.relpath(path, VERIF))}, open(path, "w"), indent=1, default=str)
    return path


def build_tools():
    os.makedirs(BUILD, exist_ok=True)
    env = dict(os.environ)
    env["CARGO_NET_OFFLINE"] = "true"
    p = subprocess.run(["cargo", "build", "--offline", "--target-dir", os.path.join(BUILD, "ioreplay")],
                       cwd=_k.crate_dir("ioreplay"), env=env, stdout=subprocess.PIPE, stderr=subprocess.STDOUT, text=True)
    if p.returncode != 0:
        raise RuntimeError("ioreplay build failed: " + p.stdout[-500:])
    sys.path.insert(0, VERIF)
    from mirsym import core
    for dbg in (False, True):
        txt = core.dump_mir(_k.REPO, "rlib/io", os.path.join(BUILD, "mir"), dbg, "dbg" if dbg else "rel")
        with open(mir_path(dbg), "w") as f:
            f.write(txt)


VALIDATION = [
    ("1 2 3\n", ["r:i32", "r:i32", "r:i32", "e"]), ("  -128 127\n", ["r:i8", "r:i8", "e"]), ("abc def\r\nxyz", ["r:String", "l", "l", "l"]),
    ("a\r\nb\n\nc", ["l", "l", "l", "l", "l"]), ("x y", ["r:char", "r:char", "e"]), ("18446744073709551615 -9223372036854775808", ["r:u64", "r:i64"]),
    ("\n\r", ["l", "l", "l"]), ("7 8 9", ["v:u8:3", "e"]), ("l1\nl2\r\nl3", ["L"]), ("12 ab", ["r:(i8,String)", "e"]),
    ("340282366920938463463374607431768211455 -170141183460469231731687303715884105728", ["r:u128", "r:i128"]), ("", ["e", "l"]),
]


def validate_translator():
    """Serval-style: concrete inputs (incl. the repository's own test strings) through mirsym and through the native build"""
    sys.path.insert(0, VERIF)
    from mirsym.iomodel import IoProgram, ReadEnv
    from mirsym.reader_check import ReaderCheck, norm, show
    from mirsym.core import Machine, I, Ref
    prog = IoProgram(open(mir_path(False)).read())
    rc = ReaderCheck(prog, ALPHABET, prog.buf_size('reader'))
    n = 0
    bad = []
    for text, ops in VALIDATION:
        data = [I(b, 'u8') for b in text.encode()]
        for sched in ([], [1] * len(data), [2, 1] * len(data)):
            m = Machine(prog)
            m.env = ReadEnv(data, 0, fixed_schedule=list(sched))
            slot = [rc.new_reader(m)]
            got = []
            for o in ops:
                parts = o.split(":")
                op = {"r": lambda: ('read', parts[1].replace(",", ", ")), "l": lambda: ('line',), "e": lambda: ('eof',),
                      "v": lambda: ('vec', parts[1], int(parts[2])), "L": lambda: ('lines',)}[parts[0]]()
                got.append(show(norm(rc.run_impl_op(m, Ref(slot, 0), op))))
            nat = native(list(text.encode()), sched, ";".join(ops))
            n += 1
            if nat != got:
                bad.append((text, sched, ops, got, nat))
    return n, bad


def run_engine(tier, seed, known, only):
    from vp.check import match_known
    t0 = time.time()
    out = {"records": [], "violations": [], "known": [], "inconclusive": []}
    build_tools()
    nval, bad = validate_translator()
    rec = {"name": "translator-validation", "engine": "mirsym", "status": "PASS" if not bad else "MISMATCH", "ok": not bad,
           "queries": nval, "desc": "%d concrete (input, schedule, script) cases: mirsym's concrete execution of the MIR vs the native build" % nval,
           "bounds": "concrete", "time": time.time() - t0}
    out["records"].append(rec)
    if bad:
        out["inconclusive"].append({"obligation": "translator-validation", "reason": "mirsym disagrees with the native build on concrete inputs: %r" % (bad[:2],)})
        return out
    tasks = tasks_for(tier)
    if only:
        tasks = [t for t in tasks if only in json.dumps(t)]
    with ProcessPoolExecutor(max_workers=int(os.environ.get("VERIF_JOBS", "16"))) as ex:
        results = list(ex.map(run_task, tasks))
    seen_roles = {}
    fns, models = set(), set()
    for r in results:
        print("  [C08] %-8s %-60s %6.1fs %s" % ("ok" if r["ok"] and not r.get("violations") else ("VIOL" if r["ok"] else "INCONCL"),
              r["name"], r["time"], "paths=%d pruned=%d obligations=%d" % (r["paths"], r["pruned"], r["obligations"]) if r["ok"] else r["error"][:150]), flush=True)
        rec = {"name": r["name"], "engine": "mirsym", "status": "PASS", "ok": True, "queries": r.get("queries", 0), "time": r["time"],
               "solver_time": r.get("solver_time", 0), "desc": "reference parse, schedule independence and panic freedom on every path",
               "bounds": "paths=%s cases=%s pruned=%s" % (r.get("paths"), r.get("cases"), r.get("pruned")), "covers": "paths explored=%s" % r.get("explored")}
        if not r["ok"]:
            rec.update(status="INCONCLUSIVE", ok=False)
            out["inconclusive"].append({"obligation": r["name"], "reason": r["error"]})
            out["records"].append(rec)
            continue
        fns |= set(r["fns"]); models |= set(r["models"])
        if r["explored"] == 0:
            rec.update(status="VACUOUS", ok=False)
            out["inconclusive"].append({"obligation": r["name"], "reason": "no path satisfied the script's preconditions (vacuous)"})
        if r["violations"]:
            rec.update(status="FAIL", ok=False)
            # one replay per role and script (the same defect shows on many paths)
            for v in r["violations"]:
                role = classify(v)
                key = (role, r["name"])
                if key in seen_roles:
                    continue
                ok, text = replay_violation(v)
                seen_roles[key] = ok
                if not ok:
                    # try the other violations of the same role before giving up
                    del seen_roles[key]
                    rec.setdefault("nonrepro", []).append(text)
                    continue
                path = write_replay("C08", v, text, len(seen_roles))
                hits, rest = match_known("C08", role, [v["kind"] + ": " + v["detail"]], known)
                if hits and not rest:
                    for k in hits:
                        out["known"].append("KNOWN-FINDING: property=C08 %s" % k["what"])
                else:
                    out["violations"].append("VIOLATION property=C08 replay=%s" % os.path.relpath(path, VERIF))
                    rec.setdefault("violation", []).append({"role": role, "bytes": v["bytes"], "schedule": v["schedule"], "native": text})
            if not any(k[1] == r["name"] for k in seen_roles):
                out["inconclusive"].append({"obligation": r["name"], "reason": "model-level violation did not reproduce natively: %s" % (rec.get("nonrepro", [])[:1],)})
        out["records"].append(rec)
    META["functions_encoded_this_run"] = sorted(fns)
    META["std_models_used"] = sorted(models)
    return out


def replay(path):
    build_tools()
    d = json.load(open(path))
    ok, text = replay_violation(d["violation"])
    print(text)
    print("REPRODUCED" if ok else "not reproduced")
    return 1 if ok else 0
