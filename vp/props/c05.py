from vp.kani import Ob

META = {
    "functions_encoded": ["rlib_dsu::DSU::{new,reset,par,un,check,size,clone,verif_raw(hook),verif_from_raw(hook)}"],
    "bounds": {"quick": "every forest over n=3,4 elements satisfying J (forest, sz[root]=cardinality, depth<=log2 size) x every un/par/check/size with every argument; n=5 for lookups; reset growing/shrinking/zero; clone; new",
               "thorough": "un step at n=5 and n=6"},
    "outside_claim": ["n > 6 (10^6-element adversarial runs are concrete executions, not solver work)", "'cannot exhaust the stack' follows from J only through the depth bound",
                      "histories are covered by induction over J (base: new/reset; step: one arbitrary operation)"],
    "stubs_and_assumes": ["pre-state built through the hook DSU::verif_from_raw from symbolic arrays assumed to satisfy J", "mem::forget at harness end"],
    "assumptions": ["Kani/CBMC translation of MIR is faithful", "J is the right invariant: inductive for union by size with path compression (checked: base + step)"],
}


def obligations(tier, seed):
    obs = []
    def add(h, **kw):
        kw.setdefault("timeout", 1500 if tier == "quick" else 5000)
        obs.append(Ob("dsu", "proofs::" + h, **kw))
    for n in ((3, 4) if tier == "quick" else (3, 4, 5, 6)):
        add("c05_un_n%d" % n, covers=2, desc="one union from an arbitrary J-state: return value, partition, J again", bounds="n=%d" % n)
    for n in ((3, 4, 5) if tier == "quick" else (3, 4, 5, 6)):
        add("c05_query_n%d" % n, covers=1, desc="par/check/size from an arbitrary J-state: answers, J again, representatives unchanged", bounds="n=%d" % n)
    for h in ("c05_reset_shrink", "c05_reset_same", "c05_reset_grow", "c05_reset_zero", "c05_new"):
        add(h, desc="reset(m) from an arbitrary J-state gives the identity forest; clone equal and independent; new", bounds="n<=6")
    add("c05_twin_false", expect="fail", desc="deliberately false twin")
    return obs
