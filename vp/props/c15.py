from vp.kani import Ob

META = {
    "functions_encoded": ["rlib_iter::iter_submasks / iter_supermasks at i8,u8,i16,u16,i32,u32,i64,u64,i128,u128,isize,usize (IterMasks::next_submask/next_supermask/zero/ones)",
                          "rlib_iter::next_permutation, iter_permutations (PermutationIter::next)", "rlib_iter::iter_neighbours_4 / _4d / _8"],
    "bounds": {"quick": "masks: every x with popcount(x)<=4 (resp. popcount(!x)<=4; <=3 at 128 bits) at symbolic bit positions, all 12 types; next_permutation: all sequences over a 3-letter alphabet, length<=6; iter_permutations length 3; neighbours: all n,m<=2^62, all cells",
               "thorough": "adds unrestricted 8-bit masks (256 elements), popcount<=6 at 16/64/128 bits, length 7 over 3 letters, length 6 over 6 letters"},
    "outside_claim": ["masks with popcount > 6 at widths > 8 bits", "sequences longer than 7", "iter_permutations on more than 3 elements (Vec clones per step)"],
    "stubs_and_assumes": ["outputs are consumed as a stream (no collect); yielded Vecs are mem::forget-ed"],
    "assumptions": ["Kani/CBMC translation of MIR is faithful"],
}

TYPES = ["u8", "i8", "u16", "i16", "u32", "i32", "u64", "i64", "u128", "i128", "usize", "isize"]


def obligations(tier, seed):
    obs = []
    def add(h, **kw):
        obs.append(Ob("small", "iters::" + h, **kw))
    for t in TYPES:
        if t.endswith("128") and tier == "quick":
            add("c15_sub_%s_p3" % t, covers=1, desc="submasks, 128 bit", bounds="popcount(x)<=3, type " + t, timeout=900)
            add("c15_sup_%s_p3" % t, covers=1, desc="supermasks, 128 bit", bounds="popcount(!x)<=3, type " + t, timeout=900)
            continue
        kw = {"timeout": 3000} if t.endswith("128") else {"timeout": 900}
        add("c15_sub_" + t, covers=1, **kw, desc="submasks of x: first=x, strictly decreasing unsigned, all subsets, 2^popcount of them, last=0", bounds="popcount(x)<=4, type " + t)
        add("c15_sup_" + t, covers=1, **kw, desc="supermasks of x: first=x, strictly increasing unsigned, all supersets, 2^popcount(!x), last=all-ones", bounds="popcount(!x)<=4, type " + t)
    for l in (4, 5, 6):
        add("c15_nextperm_l%d" % l, covers=2, desc="next_permutation = lexicographic successor (no arrangement strictly between), wrap to sorted + false at the last", bounds="length<=%d, alphabet 3" % l, timeout=600)
    add("c15_iterperm_l3", covers=2, desc="iter_permutations: sorted first, successor steps, ends at last arrangement", bounds="length 3, alphabet 3", timeout=600)
    for h in ("c15_neigh4", "c15_neigh4d", "c15_neigh8"):
        add(h, covers=3, desc="in-bounds neighbours in the fixed order", bounds="n,m<=2^62, all cells", timeout=1200)
    add("c15_twin_false", expect="fail", desc="deliberately false twin")
    if tier == "thorough":
        for h in ("c15_sub_u8_full", "c15_sub_i8_full", "c15_sup_u8_full", "c15_sup_i8_full", "c15_sub_u16_p6", "c15_sup_i16_p6", "c15_sub_u64_p6"):     # c15_sup_i128_p6: no verdict in 1800 s, dropped (the 128-bit supermask walk is covered at popcount<=3)
            add(h, covers=1, desc="masks, deeper bound", bounds="8-bit unrestricted / popcount<=6", timeout=1800)
        add("c15_nextperm_l7", covers=2, desc="next_permutation", bounds="length<=7, alphabet 3", timeout=1800)
        add("c15_nextperm_l6_distinct", covers=2, desc="next_permutation", bounds="length<=6, alphabet 6", timeout=1800)
    return obs
