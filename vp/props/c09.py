"""C09 — Writer delivers exactly the formatted bytes in order; round trip with Reader (engine: mirsym on the MIR of rlib_io)."""
import os, sys, time, json, subprocess, hashlib
from concurrent.futures import ProcessPoolExecutor

VERIF = os.path.dirname(os.path.dirname(os.path.dirname(os.path.abspath(__file__))))
sys.path.insert(0, VERIF)
from vp import kani as _k
BUILD = os.path.join(_k.BUILD, "C09")

META = {
    "functions_encoded": ["MIR of rlib_io::Writer::{new,write,write_char,flush,reserve,write_bytes}, <Writer as Drop>::drop",
                          "MIR of <&str|String|Vec<T>|i8..i128|u8..u128|isize|usize|tuples as Writable>::write", "MIR of Reader + Readable impls for the round trip"],
    "bounds": {"quick": "integers: every value of all 12 types (parametrised by sign and decimal digits: one path per digit count), rendered and read back; 8/16-bit types additionally with the value as one symbolic word; "
                        "buffer boundary: pre-state end = 65536-k for k in 0..=45 x pieces of length k-1,k,k+1 and 40-byte integers, sequences of <=3 pieces, flush or drop at the end; vectors, tuples (arity 2, 8); both MIR variants (debug: flush per write; release: buffered)",
               "thorough": "same plus &str/String longer than the buffer (chunking path), more piece sequences, and solver discharge of every decimal lemma instance used"},
    "outside_claim": ["non-ASCII chars (`c as u8` truncates)", "sinks that accept writes partially or report Interrupted: that retry loop is std::io::Write::write_all's contract, not rlib code (the stub accepts the whole slice)",
                      "sinks returning Ok(0) (write_all's WriteZero -> the library's documented unwrap panic)"],
    "stubs_and_assumes": ["<Box<dyn Write>>::write_all = recording sink", "pre-state constructed directly (end = BUF-k, buffer holding filler bytes that must be delivered first)",
                          "decimal-structure lemmas applied by the interpreter to values annotated with their decimal digits: L1 (sum d_i 10^i) div/mod 10; L2 times 10 / plus digit with the overflow flag decided digit-wise against the type's limit; L3 zero and sign tests; L4 digit-pair table window; L5 comparison with a power of ten decided on the digits. "
                          "Instances are discharged by z3/cvc5 where they terminate (see lemma records); the rest are elementary arithmetic, trusted",
                          "~45 std callees modelled (mirsym/iomodel.py); anything else aborts the run as inconclusive"],
    "assumptions": ["rustc's MIR dump is the semantics of the compiled code", "mirsym's interpreter and models are faithful (validated per run against the native build on concrete scripts)"],
}

INTS = ["i8", "i16", "i32", "i64", "i128", "isize", "u8", "u16", "u32", "u64", "u128", "usize"]
BITS = {"i8": 8, "i16": 16, "i32": 32, "i64": 64, "i128": 128, "isize": 64, "u8": 8, "u16": 16, "u32": 32, "u64": 64, "u128": 128, "usize": 64}


def mir_path(dbg):
    return os.path.join(BUILD, "mir", "io_%s.mir" % ("dbg" if dbg else "rel"))


def tasks_for(tier):
    T = []
    def add(script, k=None, end="flush", rt=None, dbg=False, group="misc"):
        T.append(dict(script=script, k=k, end=end, rt=rt, dbg=dbg, group=group))
    # 1. every value of every integer type: sign x digit count, rendered and read back
    for ty in INTS:
        bits = BITS[ty]
        maxd = len(str((1 << bits) - 1)) if ty[0] == "u" else len(str(1 << (bits - 1)))
        for n in range(1, maxd + 1):
            add([("intd", ty, n, False)], rt=[("read", ty)], group="int-" + ty)
            if ty[0] == "i":
                add([("intd", ty, n, True)], rt=[("read", ty)], group="int-" + ty)
    for ty in ("i8", "u8", "i16", "u16"):
        add([("int", ty)], rt=[("read", ty)], group="int-" + ty)
        add([("int", ty)], dbg=True, end="drop", group="int-" + ty)
    # 2. buffer boundary
    ks = list(range(0, 46))
    for k in ks:
        for L in sorted({max(k - 1, 0), k, k + 1, 1}):
            add([("str", L), ("str", 2)], k=k, end="drop" if k % 2 else "flush", group="boundary")
        if tier == "thorough" or k % 3 == 0:
            add([("char",), ("str", k), ("char",)], k=k, end="drop", group="boundary")
            add([("string", k + 1), ("flush",), ("str", 1)], k=k, group="boundary")
    for k in (38, 39, 40, 41, 42, 0, 1):
        add([("intd", "i128", 39, True), ("char",), ("intd", "u64", 20, False)], k=k, end="drop", group="boundary")
        add([("intd", "i128", 39, True)], k=k, dbg=True, end="drop", group="boundary")
    # 3. vectors, tuples, both profiles
    add([("vec", "u8", 3)], k=4, rt=None, group="compound")
    add([("vec", "i16", 2), ("char",), ("vec", "u8", 0)], k=None, end="drop", group="compound")
    add([("tuple", ["i8", "u8"])], k=3, rt=[("read", "(i8, u8)")], group="compound")
    add([("tuple", ["u8#3", "u8#1", "u8#2", "u8#3", "u8#1", "u8#1", "u8#2", "u8#3"])], k=9, rt=[("read", "(u8, u8, u8, u8, u8, u8, u8, u8)")], group="compound")
    add([("tuple", ["i16", "u64#20", "u8"])], dbg=True, end="drop", group="compound")
    add([("vec", "u8", 2), ("flush",), ("str", 2)], k=3, dbg=True, end="drop", group="compound")
    add([("str", 3), ("string", 2), ("char",)], dbg=True, group="compound")
    # pieces at least as long as the buffer (the &str/String chunking path), with earlier bytes still pending
    # (lengths are written relative to the real buffer size BUF, read from the MIR on every run)
    add([("str", 3), ("fill", "BUF"), ("char",)], k="BUF", end="flush", group="chunks")
    add([("char",), ("fill", "BUF+7"), ("str", 2)], k=10, end="drop", group="chunks")
    if tier == "thorough":
        add([("fill", "BUF+7"), ("str", 2)], k=None, end="drop", group="chunks")
        add([("str", 3), ("fill", "BUF"), ("char",)], k=10, end="flush", group="chunks")
        add([("fill", "2*BUF+1")], k="BUF", end="drop", group="chunks")
        add([("str", 3), ("fill", "BUF"), ("char",)], k="BUF", end="flush", dbg=True, group="chunks")
        for k in (0, 1, 2, 20, 40, 45):
            add([("str", k), ("str", k), ("str", k)], k=k, end="drop", group="boundary")
    return T


def nt_path():
    return os.path.join(BUILD, "mir", "num_traits_rel.mir")


def run_task(t):
    from mirsym.iomodel import IoProgram
    IoProgram.nt_text = open(nt_path()).read()
    from mirsym.writer_check import WriterCheck
    from mirsym.core import Unsupported, PathLimit
    t0 = time.time()
    name = "%s k=%s end=%s mir=%s%s" % (json.dumps(t["script"]).replace(" ", ""), t["k"], t["end"], "dbg" if t["dbg"] else "rel", " +roundtrip" if t["rt"] else "")
    try:
        prog = IoProgram(open(mir_path(t["dbg"])).read())
        rprog = IoProgram(open(mir_path(t["dbg"])).read()) if t["rt"] else None
        BUF = prog.buf_size("writer")
        wc = WriterCheck(prog, BUF)
        rel = lambda v: eval(v, {"BUF": BUF}) if isinstance(v, str) and "BUF" in v else v
        t = dict(t, k=rel(t["k"]), script=[[rel(y) for y in x] for x in t["script"]], buf=BUF)
        script = [tuple(x) if not isinstance(x, tuple) else x for x in t["script"]]
        rt = [tuple(x) for x in t["rt"]] if t["rt"] else None
        r = wc.check_script(script, t["k"], t["end"], rt, rprog)
        r["task"] = t
        lem = set(prog.used_lemmas) | (set(rprog.used_lemmas) if rprog else set())
        return dict(name=name, group=t["group"], ok=True, paths=r["paths"], obligations=r["obligations"], queries=prog.nq + wc.ob.n + (rprog.nq if rprog else 0),
                    solver_time=prog.solver_time + wc.ob.time, violations=r["violations"], inconclusive=r["inconclusive"], time=time.time() - t0,
                    lemmas=sorted(map(str, lem)), fns=sorted(prog.used_fns), models=sorted(prog.used_models), task=t)
    except (Unsupported, PathLimit) as e:
        return dict(name=name, group=t["group"], ok=False, error="%s: %s" % (type(e).__name__, e), time=time.time() - t0, task=t)


def build_tools():
    os.makedirs(BUILD, exist_ok=True)
    env = dict(os.environ); env["CARGO_NET_OFFLINE"] = "true"
    for prof in ([], ["--release"]):
        p = subprocess.run(["cargo", "build", "--offline", "--target-dir", os.path.join(BUILD, "ioreplay")] + prof, cwd=_k.crate_dir("ioreplay"), env=env,
                           stdout=subprocess.PIPE, stderr=subprocess.STDOUT, text=True)
        if p.returncode != 0:
            raise RuntimeError("ioreplay build failed: " + p.stdout[-500:])
    from mirsym import core
    for dbg in (False, True):
        txt = core.dump_mir(_k.REPO, "rlib/io", os.path.join(BUILD, "mir"), dbg, "dbg" if dbg else "rel")
        open(mir_path(dbg), "w").write(txt)
    open(nt_path(), "w").write(core.dump_mir(_k.REPO, "rlib/num_traits", os.path.join(BUILD, "mir"), False, "rel"))


def native_write(script_ops, release):
    exe = os.path.join(BUILD, "ioreplay", "release" if release else "debug", "vh_ioreplay")
    p = subprocess.run([exe, "write", ";".join(script_ops)], stdout=subprocess.PIPE, stderr=subprocess.PIPE, text=True, timeout=60)
    for l in p.stdout.splitlines():
        if l.startswith("sink:"):
            return bytes.fromhex(l[5:])
    return None


def native_ops(model_vals):
    """model values of a violation -> (ioreplay write script, expected bytes by Python's own formatting)"""
    ops, exp = [], b""
    first = True
    for kind, v in model_vals:
        if kind in INTS:
            ops.append("%s:%d" % (kind, v)); exp += str(v).encode()
        elif kind == "str":
            ops.append("s:" + v.encode().hex()); exp += v.encode()
        elif kind == "string":
            ops.append("S:" + v.encode().hex()); exp += v.encode()
        elif kind == "char":
            ops.append("c:%d" % v); exp += bytes([v])
        elif kind == "fill":
            ops.append("p:%d" % v); exp += b"x" * v
        elif kind == "flush":
            ops.append("f")
        else:
            return None, None
    return ops, exp


VALIDATION = [
    (["i32:-12", "c:32", "s:6162", "u128:340282366920938463463374607431768211455"], b"-12 ab340282366920938463463374607431768211455"),
    (["i8:-128", "c:10", "u8:0", "S:78797a", "f", "i64:-9223372036854775808"], b"-128\n0xyz-9223372036854775808"),
    (["p:65530", "u32:4294967295", "c:33"], b"x" * 65530 + b"4294967295!"),
    (["p:65536", "p:3", "i16:-1"], b"x" * 65539 + b"-1"),
    (["p:100000", "c:65", "p:40000"], b"x" * 100000 + b"A" + b"x" * 40000),
]


def validate_translator():
    """concrete scripts through mirsym (both MIR variants) and through the native build (dev and release)"""
    from mirsym.iomodel import IoProgram, WriteEnv
    from mirsym.core import Machine, I, Arr, SliceRef, Ref, Vec, Opaque, Panic
    from mirsym.writer_check import WriterCheck
    n, bad, native_bad = 0, [], []
    IoProgram.nt_text = open(nt_path()).read()
    for dbg in (False, True):
        prog = IoProgram(open(mir_path(dbg)).read())
        wc = WriterCheck(prog, prog.buf_size("writer"))
        for ops, exp in VALIDATION:
            m = Machine(prog)
            m.env = WriteEnv()
            w, _ = wc.new_writer(None, m)
            slot = [w]
            try:
              for o in ops:
                  p = o.split(":")
                  if p[0] == "f":
                      wc.run_op(m, Ref(slot, 0), ("flush",), None)
                  elif p[0] == "c":
                      wc.run_op(m, Ref(slot, 0), ("char",), I(int(p[1]), "char"))
                  elif p[0] in ("s", "S", "p"):
                      data = bytes.fromhex(p[1]) if p[0] != "p" else b"x" * int(p[1])
                      arr = Arr(len(data), I(0, "u8"), {i: I(b, "u8") for i, b in enumerate(data)})
                      val = Ref([Vec([I(b, "u8") for b in data], True)], 0) if p[0] == "S" else Ref([SliceRef(arr, 0, len(data))], 0)
                      wc.run_op(m, Ref(slot, 0), ("string",) if p[0] == "S" else ("str",), val)
                  else:
                      wc.run_op(m, Ref(slot, 0), ("int", p[0]), Ref([I(int(p[1]), p[0])], 0))
              m.run(prog.writer_fns["drop"], [Ref(slot, 0)], {})
              got = bytes(b.v for b in m.env.sink)
            except Panic as e:
                got = b"PANIC: " + str(e).encode()
            nat = native_write(ops, release=not dbg)
            n += 1
            if nat != exp:
                native_bad.append((ops, not dbg, (nat or b"")[-40:], exp[-40:]))
            elif got != exp:
                bad.append((ops, dbg, got[-30:], (nat or b"")[-30:], exp[-30:]))
    return n, bad, native_bad


def discharge_lemmas(lemmas, cap_s):
    """solver discharge of the decimal-lemma instances the interpreter applied (closed formulas over the digits)"""
    import z3
    from mirsym.core import mk_dec, dec_fits, cvc5_check
    recs = []
    for key in sorted(lemmas):
        t0 = time.time()
        tup = eval(key)
        k = None
        if len(tup) == 2:
            kind, (bits, n) = "divmod10", tup
        elif len(tup) == 4:
            kind, k, bits, n = tup
        else:
            kind, bits, n = tup
        if kind == "digit-pair-table":
            recs.append({"name": "lemma digit-pair-table", "engine": "smt", "status": "PASS", "ok": True, "queries": 0, "time": 0.0,
                         "desc": "L4: a window of length 2 at index 2*x (x annotated with <= 2 digits) into a 200-byte table whose CONCRETE contents were checked to be \"00\"..\"99\" is (tens digit, units digit)", "bounds": "table contents checked at every use"})
            continue
        ty = "u%d" % bits
        ds = [z3.BitVec("d%d" % i, 8) for i in range(n)]
        hyp = [z3.ULE(d, 9) for d in ds]
        lim = (1 << bits) - 1
        if kind == "cmp-pow10":
            hyp.append(dec_fits(ds, lim))
            x = mk_dec(ds, ty).z()
            hi = z3.Or([d != 0 for d in ds[k:]]) if ds[k:] else z3.BoolVal(False)
            claim = z3.UGE(x, z3.BitVecVal(10 ** k, bits)) == hi if 10 ** k <= lim else z3.Not(hi)
        elif kind == "divmod10":
            hyp.append(dec_fits(ds, lim))
            x = mk_dec(ds, ty).z()
            q = mk_dec(ds[1:], ty).z()
            claim = z3.And(z3.UDiv(x, z3.BitVecVal(10, bits)) == q, z3.URem(x, z3.BitVecVal(10, bits)) == z3.ZeroExt(bits - 8, ds[0]))
        else:
            # value of [0]+rest (mul10) or [d]+rest (add-digit) in wide arithmetic equals the wrapped one iff it fits the limit
            W = bits + 8
            wide = z3.BitVecVal(0, W)
            for i, d in enumerate(ds):
                wide = wide + z3.ZeroExt(W - 8, d) * z3.BitVecVal(10 ** i, W)
            claim = dec_fits(ds, lim) == z3.ULE(wide, z3.BitVecVal(lim, W))
        s = z3.Solver(); s.set("timeout", 2000); s.add(hyp); s.add(z3.Not(claim))
        r = s.check()
        if r == z3.unknown:
            r = cvc5_check(hyp + [z3.Not(claim)], None, cap_s)
        status = "PASS" if r == z3.unsat else ("FAIL" if r == z3.sat else "UNDECIDED")
        recs.append({"name": "lemma %s%s bits=%d digits=%d" % (kind, "" if k is None else " k=%d" % k, bits, n), "engine": "smt", "status": status, "ok": status != "FAIL", "queries": 1,
                     "time": time.time() - t0, "desc": "decimal-structure lemma instance used by the interpreter" + ("" if status == "PASS" else " (not discharged within the cap: trusted arithmetic)"), "bounds": "all digit vectors"})
    return recs


def run_engine(tier, seed, known, only):
    from vp.check import match_known
    t0 = time.time()
    out = {"records": [], "violations": [], "known": [], "inconclusive": []}
    build_tools()
    nval, bad, native_bad = validate_translator()
    if native_bad:
        # the REAL build (through a lawful but picky sink: partial writes, Interrupted) does not deliver the formatted bytes
        rdir = os.path.join(VERIF, "replays", "C09"); os.makedirs(rdir, exist_ok=True)
        path = os.path.join(rdir, "writer_native_script.json")
        json.dump({"property": "C09", "scripts": [dict(ops=o, release=r, native_tail=repr(n), expected_tail=repr(e)) for o, r, n, e in native_bad],
                   "how": ".build/C09/ioreplay/<profile>/vh_ioreplay write '<ops joined by ;>'"}, open(path, "w"), indent=1)
        out["violations"].append("VIOLATION property=C09 replay=%s" % os.path.relpath(path, VERIF))
        out["records"].append({"name": "native concrete scripts", "engine": "native", "status": "FAIL", "ok": False, "queries": nval, "desc": "concrete write scripts on the real build through a picky sink", "bounds": "concrete", "time": time.time() - t0})
        return out
    out["records"].append({"name": "translator-validation", "engine": "mirsym", "status": "PASS" if not bad else "MISMATCH", "ok": not bad, "queries": nval,
                           "desc": "%d concrete write scripts: mirsym's execution of both MIR variants vs the native dev and release builds vs plain formatting" % nval, "bounds": "concrete", "time": time.time() - t0})
    if bad:
        out["inconclusive"].append({"obligation": "translator-validation", "reason": "mirsym disagrees with the native build: %r" % (bad[:2],)})
        return out
    tasks = tasks_for(tier)
    if only:
        tasks = [t for t in tasks if only in json.dumps(t)]
    with ProcessPoolExecutor(max_workers=int(os.environ.get("VERIF_JOBS", "16"))) as ex:
        results = list(ex.map(run_task, tasks, chunksize=4))
    groups, lemmas, fns, models = {}, set(), set(), set()
    nviol = 0
    for r in results:
        g = groups.setdefault(r["group"], {"name": "group " + r["group"], "engine": "mirsym", "status": "PASS", "ok": True, "queries": 0, "time": 0.0, "solver_time": 0.0,
                                           "desc": "", "scripts": 0, "paths": 0, "obligations": 0})
        g["scripts"] += 1
        g["time"] += r["time"]
        if not r["ok"]:
            g.update(status="INCONCLUSIVE", ok=False)
            out["inconclusive"].append({"obligation": r["name"], "reason": r["error"]})
            print("  [C09] INCONCL %s %s" % (r["name"][:100], r["error"][:160]), flush=True)
            continue
        g["queries"] += r["queries"]; g["paths"] += r["paths"]; g["obligations"] += r["obligations"]; g["solver_time"] += r["solver_time"]
        lemmas |= set(r["lemmas"]); fns |= set(r["fns"]); models |= set(r["models"])
        for inc in r["inconclusive"]:
            g.update(status="INCONCLUSIVE", ok=False)
            out["inconclusive"].append({"obligation": r["name"], "reason": inc})
        if r["paths"] == 0:
            out["inconclusive"].append({"obligation": r["name"], "reason": "no path (vacuous)"})
        for v in r["violations"]:
            g.update(status="FAIL", ok=False)
            nviol += 1
            if nviol > 6:
                continue
            # native replay
            text, ok = "no model", None
            if v.get("model"):
                ops, exp = native_ops(v["model"])
                if ops:
                    t = r["task"]
                    buf = t.get("buf", 65536)
                    pre = ["p:%d" % (buf - t["k"])] if t["k"] is not None and buf - t["k"] > 0 else []
                    nat = native_write(pre + ops, release=not t["dbg"])
                    want = b"x" * (buf - t["k"] if t["k"] is not None else 0) + exp
                    ok = nat != want
                    text = "native sink %r..., expected %r..." % ((nat or b"")[-48:], want[-48:])
            rdir = os.path.join(VERIF, "replays", "C09"); os.makedirs(rdir, exist_ok=True)
            path = os.path.join(rdir, "writer_%s_%s.json" % (v["kind"], hashlib.sha1(json.dumps(v, default=str).encode()).hexdigest()[:8]))
            json.dump({"property": "C09", "violation": v, "task": r["task"], "native": text}, open(path, "w"), indent=1, default=str)
            print("  [C09] VIOL %s %s: %s | %s" % (r["name"][:80], v["kind"], v["detail"][:100], text[:160]), flush=True)
            if ok:
                out["violations"].append("VIOLATION property=C09 replay=%s" % os.path.relpath(path, VERIF))
            else:
                out["inconclusive"].append({"obligation": r["name"], "reason": "model-level violation (%s: %s) not reproduced natively: %s" % (v["kind"], v["detail"][:80], text[:120])})
    for gname, g in sorted(groups.items()):
        g["desc"] = "%d scripts, %d paths, %d obligations (sink = prefix ++ reference renderings; round trip where applicable)" % (g["scripts"], g["paths"], g["obligations"])
        g["bounds"] = gname
        print("  [C09] %-8s %-22s scripts=%d paths=%d obligations=%d %.1fs" % (g["status"], gname, g["scripts"], g["paths"], g["obligations"], g["time"]), flush=True)
        out["records"].append(g)
    sel = [l for l in lemmas if tier == "thorough" or eval(l)[-2] <= 32 or eval(l)[-1] <= 6]
    with ProcessPoolExecutor(max_workers=int(os.environ.get("VERIF_JOBS", "16"))) as ex:
        chunks = [sel[i::16] for i in range(16)]
        for recs in ex.map(discharge_lemmas, chunks, [20 if tier == "quick" else 120] * 16):
            for rec in recs:
                out["records"].append(rec)
                if rec["status"] == "FAIL":
                    out["inconclusive"].append({"obligation": rec["name"], "reason": "a decimal lemma instance is REFUTED: interpreter rule unsound"})
    META["decimal_lemmas"] = {"instances_used": len(lemmas), "submitted_to_solver": len(sel),
                              "discharged": sum(1 for r in out["records"] if r["name"].startswith("lemma") and r["status"] == "PASS")}
    META["functions_encoded_this_run"] = sorted(fns)
    META["std_models_used"] = sorted(models)
    return out


def replay(path):
    d = json.load(open(path))
    print(d["native"])
    return 1 if "expected" in d["native"] else 0
