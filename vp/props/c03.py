import os, re, sys
from vp.kani import Ob, VERIF, REPO
sys.path.insert(0, os.path.join(VERIF, "vp"))

META = {
    "functions_encoded": ["rlib_treap::TreapNode::{new,update,merge,split_by,push,collect_into,split_at}",
                          "rlib_treap::Treap::{new,merge,split_by,first,last,root,root_mut,collect,split_at,insert_at,remove_at,size,is_empty}"],
    "bounds": {"quick": "every binary-tree shape with <= 3 nodes x every weak order of priorities consistent with the heap condition (ties included) x every position; merges of every ordered pair with |a|+|b| <= 3 and every weak order on the union; all letters and all pending Add|Assign modifiers on every node symbolic",
               "thorough": "the same with <= 4 nodes"},
    "outside_claim": ["trees with more than 4 nodes", "code that does arithmetic, bit operations or casts on priorities instead of only copying and comparing them (guarded syntactically by a deny-list: the check is inconclusive if such a use appears)",
                      "split_by predicates are 'in-order index < cut' for every cut (prefix-monotone with concrete outcomes); a symbolic predicate outcome makes the recursion shape symbolic (drop-glue explosion, measured)"],
    "stubs_and_assumes": ["pre-states are built directly through the public node fields: concrete shape and priorities, symbolic letter and symbolic pending modifier on every node, each node finished with the real update()",
                          "output trees are mem::forget-ed"],
    "assumptions": ["Kani/CBMC translation of MIR is faithful", "skeleton enumeration is complete for the stated size (skeletons_enumerated in evidence)",
                    "results depend on priorities only through pairwise comparisons, so one representative per weak order suffices"],
}

N_FOR = {"quick": 3, "thorough": 4}
_names = {}


def priority_guard():
    """The skeletons enumerate priorities up to order (one representative per weak order, including 0 and u32::MAX), which is
    complete as long as the code only COPIES and COMPARES priorities. Deny-list: a line that mentions a priority together with
    arithmetic, bit operations, casts or numeric methods (other than drawing it from the generator) makes the check inconclusive."""
    bad = []
    for fn in ("treap_node.rs", "treap.rs"):
        for ln, line in enumerate(open(REPO + "/rlib/treap/src/" + fn), 1):
            code = line.split("//")[0]
            if "priority" not in code.lower():
                continue
            c = code.strip()
            if re.search(r"next_raw\(\) as Priority|gen_priority|type Priority", c):
                continue
            if re.search(r"priority\w*\s*(\+|-[^>]|\*|/|%|\^|&[^&]|\|[^|]|<<|>>)|(\+|-|\*|/|%|\^|<<|>>)\s*[\w.()]*priority", c, re.I) or \
               re.search(r"priority\w*(\(\))?\s+as\s+\w+|priority\w*\.(wrapping_|checked_|saturating_|count_|leading_|trailing_|rotate_|pow|abs|to_|swap_bytes|reverse_bits)", c, re.I):
                bad.append("%s:%d: %s" % (fn, ln, c))
    return bad


def generate(tier, seed):
    import gen_treap
    _names.update(gen_treap.main(N_FOR[tier], os.path.join(VERIF, "harness", "treap", "src", "gen.rs")))


def obligations(tier, seed, groups=("split", "insert", "remove", "range"), merges=True):
    import gen_treap
    names = gen_treap.main(N_FOR[tier], os.path.join(VERIF, "harness", "treap", "src", "gen.rs"))
    obs = []
    bad = priority_guard()
    if bad:
        # fail closed: an obligation that cannot pass
        obs.append(Ob("treap", "gen::PRIORITY_GUARD_" + re.sub(r"\W", "_", bad[0])[:60], desc="priority used other than in a comparison: " + "; ".join(bad)))
        return obs
    for name, n in names["shape"]:
        g = name.rsplit("_", 1)[-1]
        if name != "c03_empty" and g not in groups:
            continue
        obs.append(Ob("treap", "gen::" + name, timeout=900 if n <= 3 else 2400,
                      desc="one skeleton (shape, priority order): every position of split_at/rotate | insert_at | remove_at/split_by/first/last | range-modify; outputs = model sequences, aggregates, sizes, heap order",
                      bounds="%d nodes" % n))
    if merges:
        for name, n, k in names["merge"]:
            obs.append(Ob("treap", "gen::" + name, timeout=900 if n <= 3 else 2400, desc="merge of two skeletons, %d weak orders on the union" % k, bounds="%d nodes" % n))
    obs.append(Ob("treap", "gen::c03_twin_false", expect="fail", desc="deliberately false twin"))
    META["skeletons_enumerated"] = {"shape_order_group_harnesses": len(names["shape"]), "merge_pair_harnesses": len(names["merge"]),
                                    "merge_instances": sum(k for _, _, k in names["merge"]), "max_nodes": N_FOR[tier], "exhaustive_within_bound": True}
    return obs
