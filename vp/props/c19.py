from vp.kani import Ob

META = {
    "functions_encoded": ["rlib_tensor::Tensor::{new,from_vec,from_slice,get_index,dims,iter,index,index_mut,clone,eq}"],
    "bounds": {"quick": "rank 1..4; extents 1..=5 (rank<=2), 1..=3 (rank 3,4); all index pairs; all element values (u8)",
               "thorough": "adds rank 3 with extents 1..=5"},
    "outside_claim": ["rank > 4, extents > 5", "Debug rendering", "Readable/Writable text round trip (see C09 for the Writer; Reader is only reachable through mirsym)"],
    "stubs_and_assumes": ["mem::forget of tensors at harness end (drop glue not part of the property)",
                          "pointer/memory-safety checks off (safe Rust); Rust panics, overflow and unwinding assertions on"],
    "assumptions": ["Kani/CBMC translation of MIR is faithful", "element type instantiated at u8"],
}


def obligations(tier, seed):
    g = "small"
    obs = []
    def add(h, **kw):
        obs.append(Ob(g, "tensor::" + h, **kw))
    add("c19_index_d1", covers=2, desc="row-major offset, injective, write/read, iteration position; rank 1", bounds="extent<=5")
    add("c19_index_d2", covers=2, desc="same; rank 2", bounds="extents<=5")
    add("c19_index_d3", covers=2, desc="same; rank 3", bounds="extents<=3")
    add("c19_index_d4", covers=2, desc="same; rank 4", bounds="extents<=3", timeout=600)
    for h in ["c19_layout_vec_d2", "c19_layout_slice_d2", "c19_layout_vec_d3", "c19_layout_slice_d3", "c19_layout_slice_d4"]:
        add(h, covers=1, desc="constructor lays elements out row-major; clone preserves", bounds="<=9/8/16 elements")
    for h in ["c19_oob_d1", "c19_oob_d2", "c19_oob_d3", "c19_oob_d4", "c19_oob_mut_d3"]:
        add(h, expect="panic", desc="index out of range in exactly one dimension is rejected (get_index, Index, IndexMut)", bounds="extents<=5/5/4/3, overshoot<=2")
    add("c19_ctor_reject_zero", expect="panic", desc="zero extent rejected by new/from_vec/from_slice")
    add("c19_ctor_reject_len", expect="panic", desc="data length != product rejected by from_vec/from_slice")
    for h in ["c19_eq_d1", "c19_eq_d2", "c19_eq_d3"]:
        add(h, covers=2, role="eq", desc="== iff shape and elements agree", bounds="<=5/6/8 elements")
    add("c19_clone_from", covers=1, desc="clone_from across shapes: shape and elements of the source", bounds="rank 2, <=6 elements")
    add("c19_twin_false", expect="fail", desc="deliberately false twin (vacuity guard)")
    if tier == "thorough":
        add("c19_index_d3_e5", covers=2, desc="rank 3 extents<=5", bounds="extents<=5", timeout=1800)
    return obs


# ---------------------------------------------------------------- text IO clause (mirsym on the MIR of rlib_tensor + rlib_io)
import os, sys, json, subprocess, time, itertools
from vp import kani as _k

META["functions_encoded"].append("MIR of rlib_tensor::Tensor::{write (Writable), read, eq, index, get_index} + the MIR of rlib_io Writer/Reader (text IO round trip)")
META["bounds"]["quick"] += "; text IO: every shape of rank 1..3 with extents <= 3 and <= 8 elements (and two rank-4 shapes), symbolic u8 elements with 1-3 decimal digits: written with Writable then Tensor::read of that text = an equal tensor (same shape, same elements)"
META["outside_claim"] = [x for x in META["outside_claim"] if "Readable/Writable" not in x]

REPLAY_MAIN = '''use rlib_tensor::Tensor;
use std::io::Write;
struct Sink(std::rc::Rc<std::cell::RefCell<Vec<u8>>>);
impl Write for Sink {
    fn write(&mut self, b: &[u8]) -> std::io::Result<usize> { self.0.borrow_mut().extend_from_slice(b); Ok(b.len()) }
    fn flush(&mut self) -> std::io::Result<()> { Ok(()) }
}
fn main() {
    let dims: [usize; %(D)d] = %(dims)s;
    let t = Tensor::<u8, %(D)d>::from_vec(dims, vec!%(elems)s);
    let buf = std::rc::Rc::new(std::cell::RefCell::new(Vec::new()));
    { let mut w = rlib_io::Writer::new(Box::new(Sink(buf.clone()))); w.write(&t); }
    let text = buf.borrow().clone();
    println!("text={}", text.iter().map(|b| format!("{:02x}", b)).collect::<String>());
    let mut r = rlib_io::Reader::new(Box::new(std::io::Cursor::new(text)));
    let back = Tensor::<u8, %(D)d>::read(dims, &mut r);
    println!("equal={}", back == t);
}
'''


def _expected_text(dims, elems):
    sys.path.insert(0, _k.VERIF)
    from mirsym.tensor_check import expected_text
    out = b""
    for kind, x in expected_text(dims, elems):
        out += str(elems[x]).encode() if kind == "elem" else x.encode()
    return out


def _native_tensor(dims, elems):
    d = os.path.join(_k.BUILD, "C19", "tensorreplay")
    os.makedirs(os.path.join(d, "src"), exist_ok=True)
    open(os.path.join(d, "Cargo.toml"), "w").write('[package]\nname = "vh_tensorreplay"\nversion = "0.0.0"\nedition = "2021"\n\n[workspace]\n\n[dependencies]\nrlib_tensor = { path = "%s/rlib/tensor" }\nrlib_io = { path = "%s/rlib/io" }\n' % (_k.REPO, _k.REPO))
    open(os.path.join(d, "src", "main.rs"), "w").write(REPLAY_MAIN % {"D": len(dims), "dims": json.dumps(dims), "elems": json.dumps(elems)})
    env = dict(os.environ); env["CARGO_NET_OFFLINE"] = "true"
    p = subprocess.run(["cargo", "run", "--offline", "-q", "--release"], cwd=d, env=env, stdout=subprocess.PIPE, stderr=subprocess.PIPE, text=True, timeout=300)
    return dict(l.split("=") for l in p.stdout.strip().splitlines() if "=" in l), p.stderr[-300:]


def _shapes(tier):
    out = []
    for D in (1, 2, 3):
        for dims in itertools.product((1, 2, 3), repeat=D):
            n = 1
            for x in dims:
                n *= x
            if n <= (8 if tier == "quick" else 12):
                out.append(list(dims))
    out += [[1, 2, 1, 2], [2, 1, 2, 2]]
    return out


def _run_shape(arg):
    dims, nd, io_path, t_path = arg
    sys.path.insert(0, _k.VERIF)
    from mirsym.tensor_check import TensorProgram, check_shape
    from mirsym.core import Unsupported, PathLimit
    try:
        P = TensorProgram(open(io_path).read(), open(t_path).read())
        r = check_shape(P, dims, nd)
        r["queries"] = r.get("queries", 0) + P.nq
        return r
    except (Unsupported, PathLimit) as e:
        return dict(name="shape %s digits=%d" % (dims, nd), status="INCONCLUSIVE", detail="%s: %s" % (type(e).__name__, e), queries=0, time=0)


def run_engine(tier, seed, known, only):
    from concurrent.futures import ProcessPoolExecutor
    sys.path.insert(0, _k.VERIF)
    from mirsym import core
    out = {"records": [], "violations": [], "known": [], "inconclusive": []}
    bd = os.path.join(_k.BUILD, "C19", "mir")
    io = core.dump_mir(_k.REPO, "rlib/io", bd, False, "rel")
    tt = core.dump_mir(_k.REPO, "rlib/tensor", bd, False, "rel")
    iop, ttp = os.path.join(bd, "io_used.mir"), os.path.join(bd, "tensor_used.mir")
    open(iop, "w").write(io); open(ttp, "w").write(tt)
    shapes = _shapes(tier)
    def ndig(i, dims):
        n = 1
        for x in dims:
            n *= x
        k = 1 + (i + seed) % 3
        return k if n <= 8 or k > 1 else 2       # one-digit elements fork on "is it 0": 2^n paths
    args = [(dims, ndig(i, dims), iop, ttp) for i, dims in enumerate(shapes)]
    with ProcessPoolExecutor(max_workers=int(os.environ.get("VERIF_JOBS", "16"))) as ex:
        results = list(ex.map(_run_shape, args))
    nv = 0
    for r in results:
        rec = {"name": "io " + r["name"], "engine": "mirsym", "status": r["status"], "ok": r["status"] == "PASS", "queries": max(r.get("queries", 0), 1), "time": r.get("time", 0),
               "desc": "Tensor::read of the text written by Writable == the tensor (elements and shape)", "bounds": r["name"]}
        out["records"].append(rec)
        if r["status"] == "INCONCLUSIVE":
            out["inconclusive"].append({"obligation": rec["name"], "reason": r["detail"]})
        elif r["status"] == "FAIL":
            w = r.get("witness") or {}
            if "elems" not in w:
                out["inconclusive"].append({"obligation": rec["name"], "reason": "violation without witness: " + r["detail"]})
                continue
            nat, err = _native_tensor(w["dims"], w["elems"])
            exp = _expected_text(w["dims"], w["elems"]).hex()
            bad = (not nat) or nat.get("equal") != "true"
            text = "dims=%s elems=%s native=%s expected text=%s %s" % (w["dims"], w["elems"], nat, exp, err if not nat else "")
            print("  [C19] VIOL %s: %s" % (rec["name"], text[:300]), flush=True)
            if bad:
                nv += 1
                if nv <= 4:
                    rdir = os.path.join(_k.VERIF, "replays", "C19"); os.makedirs(rdir, exist_ok=True)
                    path = os.path.join(rdir, "tensor_io_%s.json" % "x".join(map(str, w["dims"])))
                    json.dump({"property": "C19", "witness": w, "native": text}, open(path, "w"), indent=1)
                    out["violations"].append("VIOLATION property=C19 replay=%s" % os.path.relpath(path, _k.VERIF))
            else:
                out["inconclusive"].append({"obligation": rec["name"], "reason": "model-level violation not reproduced natively: " + text[:200]})
    print("  [C19] io shapes=%d pass=%d" % (len(results), sum(1 for r in results if r["status"] == "PASS")), flush=True)
    return out
