from vp.kani import Ob

META = {
    "functions_encoded": ["rlib_tensor::Tensor::{new,from_vec,from_slice,get_index,dims,iter,index,index_mut,clone,eq}"],
    "bounds": {"quick": "rank 1..4; extents 1..=5 (rank<=2), 1..=3 (rank 3,4); all index pairs; all element values (u8)",
               "thorough": "adds rank 3 with extents 1..=5"},
    "outside_claim": ["rank > 4, extents > 5", "Debug rendering", "Readable/Writable text round trip (see C09 for the Writer; Reader is only reachable through mirsym)"],
    "stubs_and_assumes": ["mem::forget of tensors at harness end (drop glue not part of the property)",
                          "pointer/memory-safety checks off (safe Rust); Rust panics, overflow and unwinding assertions on"],
    "assumptions": ["Kani/CBMC translation of MIR is faithful", "element type instantiated at u8"],
}


def obligations(tier, seed):
    g = "small"
    obs = []
    def add(h, **kw):
        obs.append(Ob(g, "tensor::" + h, **kw))
    add("c19_index_d1", covers=2, desc="row-major offset, injective, write/read, iteration position; rank 1", bounds="extent<=5")
    add("c19_index_d2", covers=2, desc="same; rank 2", bounds="extents<=5")
    add("c19_index_d3", covers=2, desc="same; rank 3", bounds="extents<=3")
    add("c19_index_d4", covers=2, desc="same; rank 4", bounds="extents<=3", timeout=600)
    for h in ["c19_layout_vec_d2", "c19_layout_slice_d2", "c19_layout_vec_d3", "c19_layout_slice_d3", "c19_layout_slice_d4"]:
        add(h, covers=1, desc="constructor lays elements out row-major; clone preserves", bounds="<=9/8/16 elements")
    for h in ["c19_oob_d1", "c19_oob_d2", "c19_oob_d3", "c19_oob_d4", "c19_oob_mut_d3"]:
        add(h, expect="panic", desc="index out of range in exactly one dimension is rejected (get_index, Index, IndexMut)", bounds="extents<=5/5/4/3, overshoot<=2")
    add("c19_ctor_reject_zero", expect="panic", desc="zero extent rejected by new/from_vec/from_slice")
    add("c19_ctor_reject_len", expect="panic", desc="data length != product rejected by from_vec/from_slice")
    for h in ["c19_eq_d1", "c19_eq_d2", "c19_eq_d3"]:
        add(h, covers=2, role="eq", desc="== iff shape and elements agree", bounds="<=5/6/8 elements")
    add("c19_twin_false", expect="fail", desc="deliberately false twin (vacuity guard)")
    if tier == "thorough":
        add("c19_index_d3_e5", covers=2, desc="rank 3 extents<=5", bounds="extents<=5", timeout=1800)
    return obs
