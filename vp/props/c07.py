from vp.kani import Ob

META = {
    "functions_encoded": ["rlib_rational::Rational::{new,new_int,floor,ceil,norm}", "Add/Sub/Mul/Div (by value, by reference) and assigning forms, Neg",
                          "Ord::cmp, PartialOrd::partial_cmp, derived Eq/PartialEq/Hash", "rlib_gcd::gcd"],
    "bounds": {"quick": "components |a|,|b|,|c|,|d| <= 7 (i8, i64) and <= 10 (i16), denominators of either sign",
               "thorough": "adds i32 (<=10) and i128 (<=5)"},
    "outside_claim": ["components up to 2^30 over i64 (Euclid with 64-bit symbolic division)", "overflow behaviour above the threshold", "Display/Debug/Show"],
    "stubs_and_assumes": ["exact value compared by cross-multiplication in a wider integer type", "lowest terms decided by the real gcd (itself decided in C11 on this range)"],
    "assumptions": ["Kani/CBMC translation of MIR is faithful"],
}


def obligations(tier, seed):
    obs = []
    mods = [("r_i8", "i8, |.|<=7"), ("r_i16", "i16, |.|<=10"), ("r_i64", "i64, |.|<=7")]
    if tier == "thorough":
        mods += [("r_i32", "i32, |.|<=10"), ("r_i128", "i128, |.|<=5")]
    for m, b in mods:
        for h, c, d in (("new_canonical", 2, "new: exact value, positive denominator, lowest terms"),
                        ("add_sub", 2, "+,-: exact, canonical; by-ref and assigning forms identical"),
                        ("mul_div_neg", 1, "*,/,neg: exact, canonical; all operator forms"),
                        ("order_eq_hash", 2, "cmp = numeric order; == iff numerically equal; equal values hash identically"),
                        ("floor_ceil", 2, "floor/ceil: greatest integer <= x / least integer >= x")):
            obs.append(Ob("num", "rational::%s::%s" % (m, h), covers=c, desc=d, bounds=b, timeout=1500 if tier == "quick" else 3000))
    obs.append(Ob("num", "rational::c07_twin_false", expect="fail", desc="deliberately false twin"))
    return obs
