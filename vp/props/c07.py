from vp.kani import Ob

META = {
    "functions_encoded": ["rlib_rational::Rational::{new,new_int,floor,ceil,norm}", "Add/Sub/Mul/Div (by value, by reference) and assigning forms, Neg",
                          "Ord::cmp, PartialOrd::partial_cmp, derived Eq/PartialEq/Hash", "rlib_gcd::gcd"],
    "bounds": {"quick": "components |a|,|b|,|c|,|d| <= 7 at i8 and i16 (all operators), i64 (constructor, floor/ceil); denominators of either sign",
               "thorough": "adds all operators at i64 (<=7), i16/i32 (<=10); new, *,/,neg, floor/ceil at i128 (<=5)"},
    "outside_claim": ["components up to 2^30 over i64 (Euclid with 64-bit symbolic division)", "overflow behaviour above the threshold", "Display/Debug/Show"],
    "stubs_and_assumes": ["exact value compared by cross-multiplication in a wider integer type", "lowest terms decided by the real gcd (itself decided in C11 on this range)"],
    "assumptions": ["Kani/CBMC translation of MIR is faithful"],
}


def obligations(tier, seed):
    obs = []
    HS = (("new_canonical", 2, "new: exact value, positive denominator, lowest terms"),
          ("add_sub", 2, "+,-: exact, canonical; by-ref and assigning forms identical"),
          ("mul_div_neg", 1, "*,/,neg: exact, canonical; all operator forms"),
          ("order_eq_hash", 2, "cmp = numeric order; == iff numerically equal; equal values hash identically"),
          ("floor_ceil", 2, "floor/ceil: greatest integer <= x / least integer >= x"))
    def add(m, b, only=None, timeout=800):
        for h, c, d in HS:
            if only and h not in only:
                continue
            obs.append(Ob("num", "rational::%s::%s" % (m, h), covers=c, desc=d, bounds=b, timeout=timeout))
    add("r_i8", "i8, |.|<=7")
    add("r_i16", "i16, |.|<=7")
    if tier == "quick":
        # 64-bit Euclid steps are the cost driver (add_sub at i64: ~20 min): the arithmetic harnesses at i64 are thorough-only
        add("r_i64", "i64, |.|<=7", only=("new_canonical", "floor_ceil"))
    else:
        add("r_i16b", "i16, |.|<=10", timeout=4000)
        add("r_i32", "i32, |.|<=10", timeout=4000)
        add("r_i64", "i64, |.|<=7", timeout=6000)
        # i128: add_sub ran out of memory and order_eq_hash needs an unwinding bound of 17 for the 16-byte hasher writes: not claimed
        add("r_i128", "i128, |.|<=5", timeout=6000, only=("new_canonical", "mul_div_neg", "floor_ceil"))
    obs.append(Ob("num", "rational::c07_twin_false", expect="fail", desc="deliberately false twin"))
    return obs
