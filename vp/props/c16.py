from vp.kani import Ob
from vp.props import c03

META = {
    "functions_encoded": ["rlib_treap::TreapNode::{new,merge,split_at,split_by}, Treap::{merge,split_at,insert_at,remove_at} (heap order of every output)",
                          "rlib_rand::Rng::{from_seed,next_raw} and rlib_treap::TreapNode::new -> gen_priority (priority source)"],
    "bounds": {"quick": "heap order: every skeleton with <= 3 nodes (as C03: split/rotate, insert, merge pairs); priority source: all 64-bit generator states (existential goals), first 8 node priorities of a process",
               "thorough": "skeletons with <= 4 nodes"},
    "outside_claim": ["height <= 5*log2(n+1)+20 on 10^6-element adversarial histories is NOT decided: it is a statement about one concrete pseudo-random stream and concrete long runs (no symbolic variable for a solver); because `priority` is a public field the universally quantified reading is false for any treap",
                      "insufficient randomness beyond degenerate sources (constant, counter, masked) is not detected"],
    "stubs_and_assumes": c03.META["stubs_and_assumes"],
    "assumptions": c03.META["assumptions"],
}


def obligations(tier, seed):
    obs = [o for o in c03.obligations(tier, seed, groups=("split", "insert"), merges=True) if "twin" not in o.harness]
    for o in obs:
        o.desc = "heap order (parent <= child on every edge, one direction) of every output tree; " + o.desc
    obs.append(Ob("treap", "prio::c16_priority_source", covers=7, exists=True, native=("c16_native", "priority_source"), role="priority-source",
                  desc="over all 2^64 generator states: every order pattern of 3 consecutive priorities reachable, top bit / both halves / low bit vary", bounds="all seeds"))
    obs.append(Ob("treap", "prio::c16_node_priorities", desc="TreapNode::new: first 8 priorities of a process pairwise distinct, not monotone, top bit used (concrete seed 42)", bounds="8 nodes"))
    obs.append(Ob("treap", "gen::c03_twin_false", expect="fail", desc="deliberately false twin"))
    return obs
