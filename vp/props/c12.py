from vp.kani import Ob

META = {
    "functions_encoded": ["rlib_bitset::Bitset::{new,from_u64,set,remove,flip,test,clear,iter_bits,count,default,clone,eq}",
                          "BitAnd/BitOr/BitXor for &Bitset, BitAndAssign/BitOrAssign/BitXorAssign, Not", "BitsIter::{new,next}"],
    "bounds": {"quick": "N in {1,2,3} words; all word contents; all operation indices; all observer indices (whole-iterator run: N<=2)",
               "thorough": "adds the whole-iterator run at N=3"},
    "outside_claim": ["N > 3", "Display/Debug 0/1 string rendering (64N to_string calls through core::fmt are not encoded)",
                      "histories longer than builder + 1 operation are covered by induction over the state (arbitrary words), not replayed"],
    "stubs_and_assumes": ["state builder uses from_u64 + set at concrete indices; its postcondition test(i)==bit i is asserted first"],
    "assumptions": ["Kani/CBMC translation of MIR is faithful"],
}


def obligations(tier, seed):
    obs = []
    def add(h, **kw):
        obs.append(Ob("small", "bitset::" + h, **kw))
    for n in (1, 2, 3):
        add("c12_point_n%d" % n, covers=2, desc="set/remove/flip/clear from an arbitrary state, observed at an arbitrary index", bounds="N=%d" % n)
        add("c12_binops_n%d" % n, covers=2, desc="&,|,^ and assigning forms, !, count, ==, new/default/from_u64", bounds="N=%d" % n)
        add("c12_iter_n%d" % n, covers=3, desc="first three next() calls = three lowest set indices (arbitrary words)", bounds="N=%d" % n)
        if n < 3 or tier == "thorough":
            add("c12_iterwhole_n%d" % n, covers=1, timeout=1500, desc="whole iterator run, popcount<=4: every set bit once, ascending, then None forever", bounds="N=%d, popcount<=4" % n)
    add("c12_twin_false", expect="fail", desc="deliberately false twin")
    return obs
