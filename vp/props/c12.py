"""C12 — bitset = set of indices. Kani harnesses per capacity for the operations; mirsym engine for the 0/1 rendering."""
import os, sys, json, time, subprocess
VERIF = os.path.dirname(os.path.dirname(os.path.dirname(os.path.abspath(__file__))))
sys.path.insert(0, VERIF)
from vp import kani as _k
from vp.kani import Ob
BUILD = os.path.join(_k.BUILD, "C12")

META = {
    "functions_encoded": ["rlib_bitset::Bitset::{new,from_u64,set,remove,flip,test,clear,iter_bits,count,default,clone,eq}",
                          "BitAnd/BitOr/BitXor for &Bitset, BitAndAssign/BitOrAssign/BitXorAssign, Not", "BitsIter::{new,next}",
                          "MIR of <Bitset<N> as Display>::fmt, <Bitset<N> as Debug>::fmt, their closures and Bitset::test (rendering engine)"],
    "bounds": {"quick": "N in {1,2,3} words; all word contents; all operation indices; all observer indices (whole-iterator run: N<=2); rendering: N in {1,2,3}, all word contents, every character position",
               "thorough": "adds the whole-iterator run at N=3 and the rendering at N in {4, 8, 16, 17}"},
    "outside_claim": ["N > 3 (rendering: N not in {1,2,3} quick / {1,2,3,4,8,16,17} thorough)", "the inside of core::fmt / alloc: in the rendering engine Range::map, collect, <int as ToString>::to_string, [String]::join, the format-argument plumbing and Formatter::write_fmt are models with their documented meaning (a Kani harness through the real core::fmt did not leave symbolic execution in 900 s at N=1); a rendering written with another formatting spec or iterator adaptor is reported inconclusive",
                      "histories longer than builder + 1 operation are covered by induction over the state (arbitrary words), not replayed"],
    "stubs_and_assumes": ["state builder uses from_u64 + set at concrete indices; its postcondition test(i)==bit i is asserted first",
                          "rendering engine: std models listed under outside_claim; the bitset state is the array of N symbolic words"],
    "assumptions": ["Kani/CBMC translation of MIR is faithful"],
}


def obligations(tier, seed):
    obs = []
    def add(h, **kw):
        obs.append(Ob("small", "bitset::" + h, **kw))
    for n in (1, 2, 3):
        add("c12_point_n%d" % n, covers=2, desc="set/remove/flip/clear from an arbitrary state, observed at an arbitrary index", bounds="N=%d" % n)
        add("c12_binops_n%d" % n, covers=2, desc="&,|,^ and assigning forms, !, count, ==, new/default/from_u64", bounds="N=%d" % n)
        add("c12_iter_n%d" % n, covers=3, desc="first three next() calls = three lowest set indices (arbitrary words)", bounds="N=%d" % n)
        if n < 3 or tier == "thorough":
            add("c12_iterwhole_n%d" % n, covers=1, timeout=1500, desc="whole iterator run, popcount<=4: every set bit once, ascending, then None forever", bounds="N=%d, popcount<=4" % n)
    add("c12_twin_false", expect="fail", desc="deliberately false twin")
    return obs


def build_tools():
    os.makedirs(BUILD, exist_ok=True)
    env = dict(os.environ); env["CARGO_NET_OFFLINE"] = "true"
    p = subprocess.run(["cargo", "build", "--offline", "--target-dir", os.path.join(BUILD, "bitsetreplay")], cwd=_k.crate_dir("bitsetreplay"), env=env,
                       stdout=subprocess.PIPE, stderr=subprocess.STDOUT, text=True)
    if p.returncode != 0:
        raise RuntimeError("bitsetreplay build failed: " + p.stdout[-400:])


def native(N, words):
    exe = os.path.join(BUILD, "bitsetreplay", "debug", "vh_bitsetreplay")
    p = subprocess.run([exe, str(N)] + ["%x" % w for w in words], stdout=subprocess.PIPE, stderr=subprocess.PIPE, text=True, timeout=60)
    return dict(l.split("=", 1) for l in p.stdout.strip().splitlines() if "=" in l), p.returncode


def truth(N, words):
    return "".join("1" if (words[i // 64] >> (i % 64)) & 1 else "0" for i in range(64 * N))


def run_engine(tier, seed, known, only):
    from mirsym import core
    from mirsym.bitset_check import BitsetProgram, check_render
    out = {"records": [], "violations": [], "known": [], "inconclusive": []}
    try:
        build_tools()
        txt = core.dump_mir(_k.REPO, "rlib/bitset", os.path.join(BUILD, "mir"), False, "rel")
        src = open(os.path.join(_k.REPO, "rlib/bitset/src/bitset.rs")).read()
        P = BitsetProgram(txt)
        for N in ((1, 2, 3) if tier == "quick" else (1, 2, 3, 4, 8, 16, 17)):
            for r in check_render(P, N, src):
                rec = {"name": "render " + r["name"], "engine": "mirsym", "status": "PASS", "ok": True, "queries": r.get("queries", 0), "time": r["time"], "solver_time": r["time"],
                       "desc": "the text written by fmt has 64N characters and character i is '1' exactly when i is a member (all word contents)", "bounds": "N=%d" % N}
                if only and only not in rec["name"]:
                    continue
                print("  [C12] %-6s %s %.1fs" % ("ok" if r["status"] == "PASS" else "VIOL", rec["name"], r["time"]), flush=True)
                if r["status"] != "PASS":
                    rec.update(status="FAIL", ok=False)
                    w = r.get("witness")
                    if not w:
                        out["inconclusive"].append({"obligation": rec["name"], "reason": "model-level failure without a witness: " + r.get("detail", "")})
                    else:
                        nat, rc = native(N, w["words"])
                        got = nat.get(w["which"].lower())
                        want = truth(N, w["words"])
                        text = "N=%d words=%s: native %s text %r; set-theoretic text %r" % (N, ["%#x" % x for x in w["words"]], w["which"], got, want)
                        if rc != 0 or got != want:
                            rdir = os.path.join(VERIF, "replays", "C12"); os.makedirs(rdir, exist_ok=True)
                            path = os.path.join(rdir, "render_%s_N%d.json" % (w["which"], N))
                            json.dump({"property": "C12", "N": N, "words": w["words"], "which": w["which"], "native": got, "expected": want}, open(path, "w"), indent=1)
                            print("  [C12] " + text[:300], flush=True)
                            out["violations"].append("VIOLATION property=C12 replay=%s" % os.path.relpath(path, VERIF))
                        else:
                            out["inconclusive"].append({"obligation": rec["name"], "reason": "model-level counterexample not reproduced natively: " + text[:200]})
                out["records"].append(rec)
        META["functions_encoded_this_run"] = sorted(P.used_fns)
        META["std_models_used"] = sorted(P.used_models)
    except (core.Unsupported, core.PathLimit) as e:
        out["inconclusive"].append({"obligation": "rendering (mirsym)", "reason": "mirsym: %s" % e})
    return out


def replay(path):
    build_tools()
    d = json.load(open(path))
    nat, rc = native(d["N"], d["words"])
    got, want = nat.get(d["which"].lower()), truth(d["N"], d["words"])
    print(got, want)
    bad = rc != 0 or got != want
    print("REPRODUCED" if bad else "not reproduced")
    return 1 if bad else 0
