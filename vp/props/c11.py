from vp.kani import Ob

META = {
    "functions_encoded": ["rlib_gcd::{gcd,lcm,egcd,crt}", "rlib_num_traits::Integer::{abs,into_abs} at i8,u8,i16,u16,i32,u32,i64,u64"],
    "bounds": {"quick": "gcd: |a|,|b|<=31 at i8,i16,i32; lcm at i8..i64; a,b<=31 at u8..u64; egcd |a|,|b|,|c|<=15 (i16,i32); crt 1<=m1,m2<=12, reduced residues (i32,i64)",
               "thorough": "adds gcd/egcd at i64, gcd over all of i8 except MIN and all of u8, |a|,|b|<=255 at i32, egcd<=31 (i64), crt moduli<=24"},
    "outside_claim": ["magnitudes up to 2^20 over i64 (one 64-bit symbolic division per Euclid step)", "a=b=0 in egcd/lcm (division by zero, excluded by the property)", "i128/isize instantiations"],
    "stubs_and_assumes": ["'greatest' is shown through a Bezout pair returned by the real egcd and re-checked by multiplication in a wider type"],
    "assumptions": ["Kani/CBMC translation of MIR is faithful", "uniqueness of the CRT solution in [0,lcm) is the CRT itself (mathematics)"],
}


def obligations(tier, seed):
    obs = []
    def add(h, **kw):
        kw.setdefault("timeout", 900)
        obs.append(Ob("num", "gcds::" + h, **kw))
    for t in ("i8", "i16", "i32") + (("i64",) if tier == "thorough" else ()):
        add("c11_gcd_" + t, covers=2, desc="gcd>=0, divides both, Bezout pair => greatest, gcd(0,0)=0, symmetric", bounds="|a|,|b|<=31, " + t)
        add("c11_lcm_" + t, covers=1, desc="lcm>=0, common multiple, lcm*gcd=|a*b|", bounds="|a|,|b|<=31, " + t)
    if tier == "quick":
        add("c11_lcm_i64", covers=1, desc="lcm>=0, common multiple, lcm*gcd=|a*b|", bounds="|a|,|b|<=31, i64")
    add("c11_gcd_u8_b100", covers=1, desc="u8 with operands up to 100: products overflow u8 while many lcms fit", bounds="a,b<=100, u8")
    add("c11_lcm_i8_b100", covers=1, desc="i8 with |operands| up to 100: products overflow i8 while many lcms fit", bounds="|a|,|b|<=100, i8")
    for t in ("u8", "u16", "u32", "u64"):
        add("c11_gcd_" + t, covers=1, desc="unsigned gcd/lcm: divides both, no larger common divisor, lcm*gcd=a*b", bounds="a,b<=31, " + t)
    for t in ("i16", "i32") + (("i64",) if tier == "thorough" else ()):
        add("c11_egcd_" + t, covers=3, desc="egcd: Some(x,y) => a*x+b*y=c; None <=> gcd does not divide c", bounds="|a|,|b|,|c|<=15, " + t)
    for t in ("i32", "i64"):
        add("c11_crt_" + t, covers=2, desc="crt: Some(t) => 0<=t<lcm and both congruences; None <=> incompatible", bounds="m1,m2<=12, " + t)
    add("c11_twin_false", expect="fail", desc="deliberately false twin")
    if tier == "thorough":
        for h in ("c11_gcd_i8_full", "c11_gcd_u8_full", "c11_gcd_i32_255", "c11_egcd_i64_31", "c11_crt_i64_24"):  # gcd at i64 with |.|<=255: no verdict in 3000 s, dropped
            add(h, desc="deeper bound", bounds=h, timeout=3000)
    return obs
