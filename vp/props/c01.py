from vp.kani import Ob

META = {
    "functions_encoded": ["rlib_segtree::Segtree::{new_raw,new,from_slice,from_iter,rebuild,rebuild_empty,set,set_internal,ask,ask_internal,modify,modify_internal,push_at,merge_at,lower_bound*,verif_nodes(hook)}",
                          "segtree_items::{Min,Max,Sum,MinAdd,MaxAdd,SumAdd,Combinator}::{merge,modify,push,default,from}", "SegtreeItem::update (default)"],
    "bounds": {"quick": "free-monoid item with Add|Assign modifiers: every lazy state (arbitrary pending modifier on every node) x 1 arbitrary operation x arbitrary ask, n in 1..=6; constructors n in {1,3,5}; built-in items n<=6 (values |v|<=3..100)",
               "thorough": "n in 1..=8, 2 operations at n in {3,4}, built-in lazy items and nested combinator up to n=8"},
    "outside_claim": ["n > 8", "histories are covered by induction: arbitrary state satisfying the representation invariant I + abstraction A, one step, I and A re-established (checked on the raw node array through the hook); parametricity of the container in the item type is a meta-argument",
                      "overflow of i16/i64 payloads", "debug() string rendering"],
    "stubs_and_assumes": ["SumAdd/MinAdd/MaxAdd are instantiated at a harness numeric type W(i8) whose Mul is shift-add (same value as *, cheaper circuit)",
                          "trees are mem::forget-ed at harness end"],
    "assumptions": ["Kani/CBMC translation of MIR is faithful", "every lawful (merge, modify) algebra over the generators is a homomorphic image of the free-monoid item (parametricity)"],
}


def obligations(tier, seed):
    obs = []
    def add(mod, h, **kw):
        kw.setdefault("timeout", 1500 if tier == "quick" else 4000)
        obs.append(Ob("seg", mod + "::" + h, **kw))
    ns = range(1, 7) if tier == "quick" else range(1, 9)
    for n in ns:
        add("c01", "c01_step_n%d" % n, covers=3, desc="arbitrary lazy state + 1 op (modify/set/ask/search) + ask = model slice; invariant and abstraction re-established", bounds="n=%d, free-monoid item" % n)
        add("c01", "c01_builder_n%d" % n, covers=2, desc="state builder yields states satisfying the invariant with arbitrary pending modifiers", bounds="n=%d" % n)
    for n in ((1, 3, 5) if tier == "quick" else (1, 3, 5, 8)):
        add("c01", "c01_ctor_n%d" % n, covers=3, desc="new / from_slice / from_iter establish the invariant (base case)", bounds="n=%d" % n)
    add("builtin", "c01_min_n6", covers=1, desc="Min<i16>: 2 steps then ask = fold", bounds="n=6")
    add("builtin", "c01_max_n6", covers=1, desc="Max<i16>", bounds="n=6")
    add("builtin", "c01_sum_n6", covers=1, desc="Sum<i16>", bounds="n=6")
    add("builtin", "c01_minadd_n3", covers=1, desc="MinAdd: arbitrary pending adds + 1 step + ask = fold", bounds="n=3")
    add("builtin", "c01_sumadd_n3", covers=1, desc="SumAdd", bounds="n=3")
    add("builtin", "c01_maxadd_n5" if tier == "thorough" else "c01_minadd_n5", covers=1, desc="MinAdd/MaxAdd", bounds="n=5")
    add("builtin", "c01_combinator_n3", covers=1, desc="Combinator<SumAdd, Combinator<MinAdd, MaxAdd>> = the three folds side by side", bounds="n=3")
    add("c01", "c01_twin_false", expect="fail", desc="deliberately false twin")
    if tier == "thorough":
        add("c01", "c01_step2_n3", covers=3, desc="two operations", bounds="n=3,K=2")
        add("c01", "c01_step2_n4", covers=3, desc="two operations", bounds="n=4,K=2")
        for h in ("c01_minadd_n5", "c01_sumadd_n4", "c01_sumadd_n5", "c01_minadd_n8", "c01_maxadd_n8", "c01_sumadd_n8", "c01_combinator_n5", "c01_combinator_n7"):
            add("builtin", h, covers=1, desc="built-in lazy item, deeper", bounds=h)
    return obs
