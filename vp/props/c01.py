from vp.kani import Ob

META = {
    "functions_encoded": ["rlib_segtree::Segtree::{new_raw,new,from_slice,from_iter,rebuild,rebuild_empty,set,set_internal,ask,ask_internal,modify,modify_internal,push_at,merge_at,lower_bound*,verif_nodes(hook)}",
                          "segtree_items::{Min,Max,Sum,MinAdd,MaxAdd,SumAdd,Combinator}::{merge,modify,push,default,from}", "SegtreeItem::update (default)"],
    "bounds": {"quick": "free-monoid item with Add|Assign modifiers: every lazy state (arbitrary pending modifier on every node) x every modify(l,r) / set(p) / ask(l,r) with symbolic modifier or value, n in 1..=5; constructors n in {1,3,5}; built-in items n<=6 (values |v|<=3..100)",
               "thorough": "n in 1..=8; built-in lazy items and nested combinator up to n=5"},
    "outside_claim": ["n > 8", "histories are covered by induction: arbitrary state satisfying the representation invariant I + abstraction A, one step, I and A re-established (checked on the raw node array through the hook); parametricity of the container in the item type is a meta-argument",
                      "overflow of i16/i64 payloads", "debug() string rendering"],
    "stubs_and_assumes": ["SumAdd/MinAdd/MaxAdd are instantiated at a harness numeric type W(i8) whose Mul is shift-add (same value as *, cheaper circuit)",
                          "trees are mem::forget-ed at harness end"],
    "assumptions": ["Kani/CBMC translation of MIR is faithful", "every lawful (merge, modify) algebra over the generators is a homomorphic image of the free-monoid item (parametricity)"],
}


def obligations(tier, seed):
    obs = []
    def add(mod, h, **kw):
        kw.setdefault("timeout", 1500 if tier == "quick" else 4000)
        obs.append(Ob("seg", mod + "::" + h, **kw))
    ns = range(1, 6) if tier == "quick" else range(1, 9)
    for n in ns:
        for l in range(n):
            add("c01", "c01_modify_n%d_l%d" % (n, l), desc="arbitrary lazy state, modify(l, r) for every r >= l with a symbolic modifier: invariant I and abstraction A hold afterwards", bounds="n=%d, l=%d" % (n, l))
            add("c01", "c01_ask_n%d_l%d" % (n, l), desc="arbitrary lazy state, ask(l, r) for every r >= l = model slice (letter by letter); state consistent afterwards", bounds="n=%d, l=%d" % (n, l))
        add("c01", "c01_set_n%d" % n, desc="arbitrary lazy state, set(p) for every p: I and A afterwards", bounds="n=%d" % n)
        add("c01", "c01_two_n%d" % n, desc="two overlapping modifications then a query", bounds="n=%d" % n)
        add("c01", "c01_builder_n%d" % n, covers=2, desc="state builder yields states satisfying the invariant with arbitrary pending modifiers", bounds="n=%d" % n)
    for n in ((1, 3, 5) if tier == "quick" else (1, 3, 5, 8)):
        add("c01", "c01_ctor_n%d" % n, covers=2, desc="new / from_slice / from_iter from elements that may carry a pending modifier: queries = the letters given (base case)", bounds="n=%d" % n)
    add("c01", "c01_ctorinv_n3", desc="from_slice / from_iter establish I and A on the raw node array", bounds="n=3")
    add("c01", "c01_ctorinv_n6", desc="from_slice / from_iter establish I and A on the raw node array", bounds="n=6")
    for it in ("minadd", "maxadd", "sumadd"):
        add("builtin", "c01_%s_ctor_md" % it, covers=2, desc="built-in lazy item: new/from_slice from elements with a non-zero pending add", bounds="n=3")
    add("builtin", "c01_min_n6", desc="Min<i16>: 2 steps then every ask = fold", bounds="n=6")
    add("builtin", "c01_max_n6", desc="Max<i16>", bounds="n=6")
    add("builtin", "c01_sum_n6", desc="Sum<i16>", bounds="n=6")
    add("builtin", "c01_minadd_n3", desc="MinAdd: arbitrary pending adds + 1 step at every range + asks = fold", bounds="n=3")
    add("builtin", "c01_maxadd_n3", desc="MaxAdd", bounds="n=3")
    add("builtin", "c01_sumadd_n3", desc="SumAdd", bounds="n=3")
    add("builtin", "c01_combinator_n3", desc="Combinator<SumAdd, Combinator<MinAdd, MaxAdd>> = the three folds side by side", bounds="n=3")
    add("c01", "c01_combinator_free_n3", covers=2, desc="Combinator of two free-monoid items: both components equal their own sequences (from_slice/from_iter, two modifies, set, every ask)", bounds="n=3")
    add("c01", "c01_combinator_free_n4", covers=2, desc="Combinator of two free-monoid items", bounds="n=4")
    add("c01", "c01_twin_false", expect="fail", desc="deliberately false twin")
    if tier == "thorough":
        for h in ("c01_minadd_n5", "c01_maxadd_n5", "c01_sumadd_n4", "c01_sumadd_n5"):     # c01_combinator_n5: CBMC out of memory, dropped
            add("builtin", h, desc="built-in lazy item, deeper", bounds=h)
    return obs
