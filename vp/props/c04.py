from vp.kani import Ob

META = {
    "functions_encoded": ["rlib_fft::FFT::<F>::{new,update_n,fft_internal,fft,fft_into,fft_inv,fft_inv_into,multiply,multiply_into} and Complex<F> operators, instantiated at the exact field F = GF(7)"],
    "bounds": {"quick": "all GF(7) coefficient vectors for length pairs 1x1,1x2,2x2,3x2,2x3,4x1 (transform sizes 2,4; both sides of the 2|3 and 4|5 switches); size 8 with one symbolic operand x 4 concrete operands; call histories 2->8->2 and 8->4 on one object; *_into additive contract; fft/pointwise/fft_inv = multiply",
               "thorough": "same (the exact model tops out at transform size 8: GF(7)[i] has 8th roots of unity only)"},
    "outside_claim": ["the floating-point half of the property (rounding error of f64/f32 stays below 0.5 inside the published envelope) is NOT decided: bit-precise IEEE reasoning over an n log n butterfly network with sin/cos is out of reach, reals would be unsound",
                      "a change that only alters numerical error is invisible; a change to indexing, packing, conjugate unpacking, scaling, accumulation or table growth is not",
                      "transform sizes > 8"],
    "stubs_and_assumes": ["Float for GF(7): cos/sin from an exact angle annotation; round = identity; to_i64 = representative; sqrt/abs unsupported (panic => check reports failure)",
                          "model validated natively against the real crate (tests/native.rs) before the solver runs"],
    "assumptions": ["Kani/CBMC translation of MIR is faithful", "FFT<F> is parametric in F: an indexing/packing/accumulation bug visible over the reals is visible over GF(7)[i] (meta-argument)"],
}


def obligations(tier, seed):
    obs = []
    def add(h, **kw):
        kw.setdefault("timeout", 1800)
        obs.append(Ob("fft", "proofs::" + h, **kw))
    for h in ("c04_mul_1x1", "c04_mul_1x2", "c04_mul_2x2", "c04_mul_3x2", "c04_mul_2x3", "c04_mul_4x1"):
        add(h, covers=1, desc="multiply = convolution mod 7, all coefficient vectors", bounds=h[8:])
    add("c04_mul_signed_2x2", covers=1, desc="negative coefficients", bounds="2x2, coefficients in [-7,7)")
    add("c04_empty", desc="empty operands: empty result, destination untouched")
    for h in ("c04_hist8_dense", "c04_hist8_unit", "c04_hist8_ones", "c04_hist8_alt"):
        add(h, desc="history 2 -> 8 (multiply_into onto a symbolic destination) -> 2 on one object equals fresh results", bounds="4 symbolic x 5 concrete coefficients")
    add("c04_hist_shrink", desc="size 4 (fully symbolic) after the object has grown to 8")
    add("c04_fft_pointwise_inv", desc="fft -> pointwise product -> fft_inv = multiply", bounds="2x2")
    add("c04_inv_same_object", desc="fft_inv(fft(a, 8)) = a on the object that produced the spectrum", bounds="size 8")
    add("c04_inv_fresh_object", role="inv-fresh", desc="fft_inv of a size-8 spectrum on a FRESH object (history independence of the inverse transform)", bounds="size 8")
    add("c04_into_accumulates", desc="fft_into / fft_inv_into add to their destination")
    add("c04_twin_false", expect="fail", desc="deliberately false twin")
    return obs
