"""C13 — sieve tables equal the arithmetic definitions (engine: mirsym on the MIR of rlib_sieve; limit enumerated, n and d symbolic)."""
import os, sys, time, json, subprocess
from concurrent.futures import ProcessPoolExecutor
VERIF = os.path.dirname(os.path.dirname(os.path.dirname(os.path.abspath(__file__))))
sys.path.insert(0, VERIF)
from vp import kani as _k
BUILD = os.path.join(_k.BUILD, "C13")

META = {
    "functions_encoded": ["MIR of rlib_sieve::Sieve::{new,min_prime,is_prime,primes,factorize} and PrimeIter::next"],
    "bounds": {"quick": "tables (smallest prime factor, primality, prime list) additionally at N in {127,128,256,289,300,1000}; every limit N in 0..=64: Sieve::new(N) executed concretely on the MIR; for every 2<=n<=N (symbolic) the table entry divides n, is >= 2 and no 2<=d<entry (symbolic) divides n; is_prime(n) <=> entry = n; is_prime(0), is_prime(1) false; prime list = the primes <= N; factorize(n) for every 1<=n<=N (symbolic): increasing primes whose powers multiply to n; plus the large limit N = 65600 (2^16+64): full prime list, and tables + factorisation for symbolic n in windows of +-16 around 2^13..2^16 and +-8 around 3^9, 3^10 and the last 16 values below the limit",
               "thorough": "tables for every N in 0..=300 (covers prime squares up to 17^2) and at N in {361,512,529,1000,1024,2048,2209,3000,4096}; factorisation at every N <= 100 and at N in {121,128,169,200,243,256,289,300}; large limits N = 65600 and N = 1048640 (2^20+64, above the 10^6 of the quantifier): full prime list, tables + factorisation for symbolic n in windows of +-32 around every power of two and +-16 around every power of three in (1024, N], the last 32 values below the limit and [10^6-32, 10^6]"},
    "outside_claim": ["limits other than those listed; at the large limits, values of n outside the listed windows (the windows sit where the exponent of the smallest prime is largest, which is where a packed exponent/cofactor field is widest, and at the limit itself); 10^7 is not run",
                      "the solver's share is the quantification over n and d, not over N (N is enumerated: it bounds every loop and every Vec length)"],
    "stubs_and_assumes": ["Vec/Range models (from_elem, push, len, index with an if-then-else chain for symbolic indices (tables > 1024 entries: chain over the feasible index interval, found by binary search with the solver), Range::next)", "the prime list is a concrete table once N is fixed and is compared with trial division"],
    "assumptions": ["rustc's MIR dump is the semantics of the compiled code", "mirsym's interpreter and models are faithful (native replay of every counterexample)"],
}


def pow_windows(N, half=32, minq=1024):
    """windows of the symbolic n for one large limit: around every power of two and of three in (1024, N] (largest exponents, i.e. where
    an exponent or cofactor field of a packed table is widest), and the last values below the limit (off-by-one at the limit)"""
    ws = []
    for b in (2, 3):
        q = b
        while q <= N:
            if q > minq:
                ws.append((q - half // (1 if b == 2 else 2), min(N, q + half // (1 if b == 2 else 2))))
            q *= b
    ws.append((N - half, N))
    return ws


BIG_QUICK = 65600           # 2^16 + 64
BIG_THOROUGH = 1048640      # 2^20 + 64 (covers the 10^6 limit of the property's quantifier)


def limits(tier):
    """-> [(N, factorise?, windows or None)]"""
    if tier == "quick":
        return [(N, True, None) for N in range(0, 65)] + [(N, False, None) for N in (127, 128, 256, 289, 300, 1000)] + [(BIG_QUICK, True, pow_windows(BIG_QUICK, 16, 8000))]
    fact = set(range(0, 101)) | {121, 128, 169, 200, 243, 256, 289, 300}
    return [(N, N in fact, None) for N in range(0, 301)] + [(N, False, None) for N in (361, 512, 529, 1000, 1024, 2048, 2209, 3000, 4096)] + \
        [(BIG_QUICK, True, pow_windows(BIG_QUICK)), (BIG_THOROUGH, True, pow_windows(BIG_THOROUGH) + [(10 ** 6 - 32, 10 ** 6)])]


def mir_path():
    return os.path.join(BUILD, "mir", "sieve_rel.mir")


def run_limit(arg):
    N, fact, wins = arg
    from mirsym.sieve_check import SieveProgram, check_limit
    from mirsym.core import Unsupported, PathLimit
    t0 = time.time()
    try:
        P = SieveProgram(open(mir_path()).read())
        recs = check_limit(P, N, do_factorize=fact, windows=wins)
        return dict(N=N, ok=True, recs=recs, queries=P.nq + recs[0].get("queries", 0), time=time.time() - t0, fns=sorted(P.used_fns), models=sorted(P.used_models))
    except (Unsupported, PathLimit) as e:
        return dict(N=N, ok=False, error="%s: %s" % (type(e).__name__, e), time=time.time() - t0)


def truth(N, n):
    def spf(k):
        d = 2
        while d * d <= k:
            if k % d == 0:
                return d
            d += 1
        return k
    primes = [k for k in range(2, N + 1) if spf(k) == k]
    out = {"primes": ",".join(map(str, primes))}
    if 2 <= n <= N:
        out["min_prime"] = str(spf(n)); out["is_prime"] = str(spf(n) == n).lower()
    elif 0 <= n <= N:
        out["is_prime"] = "false"
    if n >= 1:
        fs, k = [], n
        while k > 1:
            p, e = spf(k), 0
            while k % p == 0:
                k //= p; e += 1
            fs.append("%d^%d" % (p, e))
        out["factorize"] = "*".join(fs)
    return out


def native(N, n):
    exe = os.path.join(BUILD, "sievereplay", "debug", "vh_sievereplay")
    p = subprocess.run([exe, str(N), str(n)], stdout=subprocess.PIPE, stderr=subprocess.PIPE, text=True, timeout=60)
    return dict(l.split("=", 1) for l in p.stdout.strip().splitlines() if "=" in l), ("PANIC" in p.stdout)


def build_tools():
    os.makedirs(BUILD, exist_ok=True)
    env = dict(os.environ); env["CARGO_NET_OFFLINE"] = "true"
    p = subprocess.run(["cargo", "build", "--offline", "--target-dir", os.path.join(BUILD, "sievereplay")], cwd=_k.crate_dir("sievereplay"), env=env,
                       stdout=subprocess.PIPE, stderr=subprocess.STDOUT, text=True)
    if p.returncode != 0:
        raise RuntimeError("sievereplay build failed: " + p.stdout[-400:])
    from mirsym import core
    txt = core.dump_mir(_k.REPO, "rlib/sieve", os.path.join(BUILD, "mir"), False, "rel")
    open(mir_path(), "w").write(txt)


def run_engine(tier, seed, known, only):
    out = {"records": [], "violations": [], "known": [], "inconclusive": []}
    build_tools()
    lims = limits(tier)
    if only:
        lims = [x for x in lims if str(x[0]) == only]
    with ProcessPoolExecutor(max_workers=int(os.environ.get("VERIF_JOBS", "16"))) as ex:
        results = list(ex.map(run_limit, sorted(lims, key=lambda x: -x[0])))
    fns, models, nviol = set(), set(), 0
    for r in sorted(results, key=lambda x: x["N"]):
        rec = {"name": "limit N=%d" % r["N"], "engine": "mirsym", "status": "PASS", "ok": True, "queries": r.get("queries", 0), "time": r["time"], "solver_time": r["time"],
               "desc": "Sieve::new(N) on the MIR; smallest-prime-factor, primality, prime list, factorisation for every n <= N (symbolic n, d)", "bounds": "N=%d" % r["N"]}
        if not r["ok"]:
            rec.update(status="INCONCLUSIVE", ok=False)
            out["inconclusive"].append({"obligation": rec["name"], "reason": r["error"]})
            out["records"].append(rec)
            continue
        fns |= set(r["fns"]); models |= set(r["models"])
        fails = [x for x in r["recs"] if x["status"] == "FAIL"]
        if fails:
            rec.update(status="FAIL", ok=False)
            for f in fails[:2]:
                nviol += 1
                w = f.get("witness") or {}
                N, n = w.get("N", r["N"]), w.get("n")
                if n is None:
                    out["inconclusive"].append({"obligation": rec["name"], "reason": "violation without a witness: " + f["detail"]})
                    continue
                nat, panicked = native(N, n)
                exp = truth(N, n)
                bad = panicked or any(nat.get(k) != v for k, v in exp.items())
                text = "N=%d n=%d: native %s%s; arithmetic definition %s" % (N, n, {k: nat.get(k) for k in exp}, " PANIC" if panicked else "", exp)
                print("  [C13] VIOL %s: %s | %s" % (f["name"], f["detail"][:100], text[:300]), flush=True)
                if bad:
                    if nviol <= 5:
                        rdir = os.path.join(VERIF, "replays", "C13"); os.makedirs(rdir, exist_ok=True)
                        path = os.path.join(rdir, "sieve_N%d_n%d.json" % (N, n))
                        json.dump({"property": "C13", "N": N, "n": n, "detail": f["detail"], "native": text}, open(path, "w"), indent=1)
                        out["violations"].append("VIOLATION property=C13 replay=%s" % os.path.relpath(path, VERIF))
                else:
                    out["inconclusive"].append({"obligation": rec["name"], "reason": "model-level violation not reproduced natively: " + text[:200]})
        out["records"].append(rec)
    print("  [C13] limits=%d pass=%d" % (len(results), sum(1 for r in out["records"] if r["ok"])), flush=True)
    META["functions_encoded_this_run"] = sorted(fns)
    META["std_models_used"] = sorted(models)
    META["skeletons_enumerated"] = {"limits": len(results), "exhaustive_within_bound": True}
    return out


def replay(path):
    build_tools()
    d = json.load(open(path))
    nat, panicked = native(d["N"], d["n"])
    exp = truth(d["N"], d["n"])
    bad = panicked or any(nat.get(k) != v for k, v in exp.items())
    print(nat, exp)
    print("REPRODUCED" if bad else "not reproduced")
    return 1 if bad else 0
