from vp.kani import Ob

META = {
    "functions_encoded": ["rlib_rand::randomable::Randomable::gen_from_u64 for Range/RangeInclusive/RangeTo/RangeToInclusive/RangeFull at i8,u8,i16,u16,i32,u32,i64,u64,isize,usize",
                          "Randomable<f64> for Range<f64>", "LinearCongruentialGenerator64::{from_seed,next_raw,next}", "Rand::shuffle"],
    "bounds": {"quick": "all range bounds x all 2^64 raw outputs for every integer type and form; all finite f64 ranges x all raw; all seeds; shuffle n<=6 (permutation), n<=4 (all arrangements reachable); periods<=16",
               "thorough": "same"},
    "outside_claim": ["near-equal frequency of arrangements (model counting over 2^64 seeds) is not decided", "from_time()"],
    "stubs_and_assumes": ["reachability uses the Skolem witness raw = v - start", "existential claims are kani::cover! goals that must be SATISFIED"],
    "assumptions": ["Kani/CBMC translation of MIR is faithful", "CBMC's IEEE-754 double semantics (round-to-nearest-even)"],
}


def obligations(tier, seed):
    obs = []
    def add(h, **kw):
        kw.setdefault("timeout", 900)
        obs.append(Ob("num", "rand::" + h, **kw))
    for t in ("i8", "u8", "i16", "u16", "i32", "u32", "i64", "u64", "isize", "usize"):
        add("c14_range_" + t, covers=3, desc="draw lies inside the range for every raw output; 5 range forms", bounds="all bounds, all raw; " + t)
    for t in ("i8", "u8", "i16", "i32", "u32", "i64", "u64", "usize"):
        add("c14_reach_" + t, covers=2, desc="every value of every range is produced by some raw output", bounds="all ranges; " + t)
    add("c14_f64_range", covers=2, role="f64-range", desc="start <= x < end for all finite ranges and raw outputs", bounds="all finite f64 pairs")
    add("c14_f64_range_moderate", covers=1, role="f64-range", desc="same, moderate magnitudes", bounds="|bounds|<=1e12, length>=1e-6")
    # determinism: two multiplier chains must be proved equal - SAT-hard under CBMC (no verdict in 900 s); decided by the SMT engine instead
    if False: add("c14_determinism", covers=1, desc="equal seeds / copies give equal streams; distinct seeds differ", bounds="all seeds, 4+4 draws")
    add("c14_shuffle_perm_n6", covers=1, desc="shuffle is a rearrangement", bounds="n=6, all seeds")
    add("c14_shuffle_perm_n1", covers=1, desc="shuffle of one element", bounds="n=1")
    add("c14_shuffle_reach", covers=30, role="shuffle-reach", exists=True, native=("c14_native", "shuffle_reach"), desc="each of the 24+6 arrangements of 4 and 3 elements is reached by some seed", bounds="all 2^64 seeds")
    add("c14_not_periodic", covers=5, role="period", exists=True, native=("c14_native", "not_periodic"), desc="small-range draws are not periodic with period <= 16", bounds="all seeds, 33 draws")
    add("c14_twin_false", expect="fail", desc="deliberately false twin")
    return obs
