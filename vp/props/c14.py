from vp.kani import Ob

META = {
    "functions_encoded": ["rlib_rand::randomable::Randomable::gen_from_u64 for Range/RangeInclusive/RangeTo/RangeToInclusive/RangeFull at i8,u8,i16,u16,i32,u32,i64,u64,isize,usize",
                          "Randomable<f64> for Range<f64>", "LinearCongruentialGenerator64::{from_seed,next_raw,next}", "Rand::shuffle"],
    "bounds": {"quick": "all range bounds x all 2^64 raw outputs for every integer type and form; all finite f64 ranges x all raw; all seeds; shuffle n<=6 (permutation), n<=4 (all arrangements reachable); periods<=16",
               "thorough": "same"},
    "outside_claim": ["near-equal frequency of arrangements (model counting over 2^64 seeds) is not decided", "from_time()"],
    "stubs_and_assumes": ["reachability uses the Skolem witness raw = v - start", "existential claims are kani::cover! goals that must be SATISFIED"],
    "assumptions": ["Kani/CBMC translation of MIR is faithful", "CBMC's IEEE-754 double semantics (round-to-nearest-even)"],
}


def obligations(tier, seed):
    obs = []
    def add(h, **kw):
        kw.setdefault("timeout", 900)
        obs.append(Ob("num", "rand::" + h, **kw))
    for t in ("i8", "u8", "i16", "u16", "i32", "u32", "i64", "u64", "isize", "usize"):
        add("c14_range_" + t, covers=3, desc="draw lies inside the range for every raw output; 5 range forms", bounds="all bounds, all raw; " + t)
    for t in ("i8", "u8", "i16", "i32", "u32", "i64", "u64", "usize"):
        add("c14_reach_" + t, covers=2, desc="every value of every range is produced by some raw output", bounds="all ranges; " + t)
    add("c14_f64_range", covers=2, role="f64-range", desc="start <= x < end for all finite ranges and raw outputs", bounds="all finite f64 pairs")
    add("c14_f64_range_moderate", covers=1, role="f64-range", desc="same, moderate magnitudes", bounds="|bounds|<=1e12, length>=1e-6")
    # determinism: two multiplier chains must be proved equal - SAT-hard under CBMC (no verdict in 900 s); decided by the SMT engine instead
    if False: add("c14_determinism", covers=1, desc="equal seeds / copies give equal streams; distinct seeds differ", bounds="all seeds, 4+4 draws")
    add("c14_shuffle_perm_n6", covers=1, desc="shuffle is a rearrangement", bounds="n=6, all seeds")
    add("c14_shuffle_perm_n1", covers=1, desc="shuffle of one element", bounds="n=1")
    add("c14_shuffle_reach", covers=30, role="shuffle-reach", exists=True, native=("c14_native", "shuffle_reach"), desc="each of the 24+6 arrangements of 4 and 3 elements is reached by some seed", bounds="all 2^64 seeds")
    add("c14_not_periodic", covers=5, role="period", exists=True, native=("c14_native", "not_periodic"), desc="small-range draws are not periodic with period <= 16", bounds="all seeds, 33 draws")
    add("c14_twin_false", expect="fail", desc="deliberately false twin")
    return obs


# ---------------------------------------------------------------- seed determinism on the MIR of rlib_rand (z3)
# Under CBMC the same claim needs two 64-bit multiplier chains to be proved equal (no verdict in 900 s); at the term level
# the two streams are the same term, so the SMT query is immediate.
import os, sys, time
from vp import kani as _k

META["functions_encoded"].append("MIR of rlib_rand::LinearCongruentialGenerator64::{from_seed,next_raw} (seed determinism, symbolic seed)")
META["bounds"]["quick"] += "; determinism: equal seeds and copies give equal streams for every 64-bit seed, 8 draws (SMT on the MIR)"
META["outside_claim"] = [x for x in META["outside_claim"] if "determinism" not in x]


def run_engine(tier, seed, known, only):
    sys.path.insert(0, _k.VERIF)
    import z3
    from mirsym import core
    from mirsym.conc_check import ConcProgram, Free
    out = {"records": [], "violations": [], "known": [], "inconclusive": []}
    t0 = time.time()
    try:
        rt = core.dump_mir(_k.REPO, "rlib/rand", os.path.join(_k.BUILD, "C14", "mir"), False, "rel")
        P = ConcProgram("", rt)
        P.cur = Free(0)
        s = z3.BitVec("seed", 64)
        sub = {"A": "6364136223846793005_u64", "C": "1442695040888963407_u64"}
        def stream(n):
            m = core.Machine(P)
            g = m.run(P.one("from_seed"), [core.I(s, "u64")], sub)
            cell = [g]
            outv = []
            for _ in range(n):
                outv.append(m.run(P.one("next_raw"), [core.Ref(cell, 0)], sub))
            return outv, cell
        a, ca = stream(8)
        b, cb = stream(8)
        # a copy taken after 3 draws continues with the same stream
        m = core.Machine(P)
        g = m.run(P.one("from_seed"), [core.I(s, "u64")], sub)
        c1 = [g]
        pre = [m.run(P.one("next_raw"), [core.Ref(c1, 0)], sub) for _ in range(3)]
        c2 = [core.copyval(c1[0])]
        x = [m.run(P.one("next_raw"), [core.Ref(c1, 0)], sub) for _ in range(3)]
        y = [m.run(P.one("next_raw"), [core.Ref(c2, 0)], sub) for _ in range(3)]
        claims = [("equal seeds give equal streams (8 draws)", z3.And([p.z() == q.z() for p, q in zip(a, b)])),
                  ("a copy continues with the same stream", z3.And([p.z() == q.z() for p, q in zip(x, y)])),
                  ("the stream is not constant (vacuity witness: must be refutable)", z3.And([a[0].z() == a[1].z()]))]
        for i, (desc, claim) in enumerate(claims):
            sv = z3.Solver(); sv.set("timeout", 60000); sv.add(z3.Not(claim))
            r = sv.check()
            expect_fail = i == 2
            status = "PASS" if r == z3.unsat else ("FAIL" if r == z3.sat else "UNKNOWN")
            ok = (status == "FAIL") if expect_fail else (status == "PASS")
            rec = {"name": "determinism:%d" % i, "engine": "mirsym", "status": status, "ok": ok, "queries": 1, "time": time.time() - t0, "desc": desc, "bounds": "all 64-bit seeds"}
            if expect_fail:
                rec["expect"] = "fail"
            out["records"].append(rec)
            print("  [C14] %-8s determinism:%d %s" % (status, i, desc), flush=True)
            if not ok:
                if status == "FAIL" and not expect_fail:
                    mdl = sv.model()
                    sd = mdl.eval(s, model_completion=True).as_long()
                    import subprocess, json
                    env = dict(os.environ); env["CARGO_NET_OFFLINE"] = "true"; env["VERIF_DET_SEED"] = str(sd)
                    pr = subprocess.run(["cargo", "test", "--release", "--offline", "--target-dir", os.path.join(_k.BUILD, "C14", "native_num"), "--test", "c14_native", "determinism_seed", "--", "--exact"],
                                        cwd=_k.crate_dir("num"), env=env, stdout=subprocess.PIPE, stderr=subprocess.STDOUT, text=True)
                    if "test result: FAILED" in pr.stdout:
                        rdir = os.path.join(_k.VERIF, "replays", "C14"); os.makedirs(rdir, exist_ok=True)
                        path = os.path.join(rdir, "determinism_seed_%d.json" % sd)
                        json.dump({"property": "C14", "seed": sd, "how": "VERIF_DET_SEED=%d cargo test --release --test c14_native determinism_seed (harness/num)" % sd}, open(path, "w"))
                        out["violations"].append("VIOLATION property=C14 replay=%s" % os.path.relpath(path, _k.VERIF))
                    else:
                        out["inconclusive"].append({"obligation": rec["name"], "reason": "refuted for seed %d but the native run does not show it" % sd})
                else:
                    out["inconclusive"].append({"obligation": rec["name"], "reason": "z3 %s" % status})
    except core.Unsupported as e:
        out["inconclusive"].append({"obligation": "determinism", "reason": "mirsym: %s" % e})
    return out
