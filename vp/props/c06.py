from vp.kani import Ob

META = {
    "functions_encoded": ["rlib_mint::Modular::<M>::{new,inv,pow,inner,md}", "Add/Sub/Mul/Div/Neg and AddAssign/SubAssign/MulAssign/DivAssign", "derived PartialEq"],
    "bounds": {"quick": "per modulus in {7,12,998244353,2^31-1}: all i64 constructor arguments, all operand pairs for + - neg *; inv,/ for all units (M<=13) or the windows [1,16],[M-16,M-1]; pow vs naive product d<=16; pow over ALL 64-bit exponents at p=2",
               "thorough": "moduli {2,3,4,7,12,251,256,65537,998244353,1000000007,2^31-2,2^31-1}; inv for all units at M in {2..13,16,61,251,256}; pow all 64-bit exponents at p in {2,3,5,7}"},
    "outside_claim": ["moduli not in the list for inv, / and pow", "pow with large exponents at large moduli", "Display/Debug/Show", "Readable (one-line forwarder new(read::<i64>()))", "M >= 2^31 (outside the property)"],
    "stubs_and_assumes": ["elements are built by new(v) with 0<=v<M after new is shown onto [0,M)", "specification shares the i64 remainder term with the implementation (rem_euclid)"],
    "assumptions": ["Kani/CBMC translation of MIR is faithful", "one instantiation per modulus (const generic)"],
}

QUICK_M = [7, 12, 998244353, 2147483647]
ALL_M = [2, 3, 4, 7, 12, 251, 256, 65537, 998244353, 1000000007, 2147483646, 2147483647]


def obligations(tier, seed):
    obs = []
    def add(h, **kw):
        kw.setdefault("timeout", 900 if tier == "quick" else 3000)
        obs.append(Ob("num", "mint::" + h, **kw))
    ms = QUICK_M if tier == "quick" else ALL_M
    for m in ms:
        if tier == "quick" and m == 998244353:
            # the 30-bit prime: new/+/- here; * and inv take ~15 min each under CBMC (thorough tier); * for EVERY modulus is
            # decided by the SMT obligations with a symbolic modulus
            add("c06_new_m%d" % m, covers=2, desc="new(v) = v mod M in [0,M) for every i64 v", bounds="M=%d, all v" % m, timeout=1800)
            add("c06_addsub_m%d" % m, covers=3, desc="+,-,neg", bounds="M=%d, all pairs" % m)
            continue
        add("c06_new_m%d" % m, covers=2, desc="new(v) = v mod M in [0,M) for every i64 v", bounds="M=%d, all v" % m)
        add("c06_addsub_m%d" % m, covers=3, desc="+,-,neg and assigning forms give the canonical representative; == is representative equality", bounds="M=%d, all pairs" % m)
        add("c06_mul_m%d" % m, covers=1, desc="* and *= give the representative of the integer product", bounds="M=%d, all pairs" % m)
    inv_m = [2, 7, 12, 13] if tier == "quick" else [2, 3, 4, 5, 6, 7, 8, 9, 10, 11, 12, 13, 16, 61, 251, 256, 65537, 998244353, 1000000007, 2147483646, 2147483647]
    for m in inv_m:
        add("c06_inv_m%d" % m, covers=2, desc="y*inv(y)=1 and (x/y)*y=x for every unit y (windows at large M)", bounds="M=%d" % m)
    pow_m = [2, 7, 12] if tier == "quick" else [2, 3, 4, 7, 9, 12, 13, 998244353, 2147483647]
    for m in pow_m:
        add("c06_pow_m%d" % m, covers=1, desc="pow(d) = d-fold product", bounds="M=%d, d<=16, all bases" % m)
    for p in ([2] if tier == "quick" else [2, 3, 5, 7]):
        add("c06_powall_p%d" % p, covers=2, desc="pow over every 64-bit exponent = Fermat-reduced product", bounds="p=%d, all d<2^64" % p)
    add("c06_twin_false", expect="fail", desc="deliberately false twin")
    return obs
