from vp.kani import Ob

META = {
    "functions_encoded": ["rlib_mint::Modular::<M>::{new,inv,pow,inner,md}", "Add/Sub/Mul/Div/Neg and AddAssign/SubAssign/MulAssign/DivAssign", "derived PartialEq"],
    "bounds": {"quick": "per modulus in {7,12,998244353,2^31-1}: all i64 constructor arguments, all operand pairs for + - neg *; inv,/ for all units (M<=13) or the windows [1,16],[M-16,M-1]; pow vs naive product d<=16; pow over ALL 64-bit exponents at p=2",
               "thorough": "moduli {2,3,4,7,12,251,256,65537,998244353,1000000007,2^31-2,2^31-1}; inv for all units at M in {2..13,16,61,251,256}; pow all 64-bit exponents at p in {2,3,5,7}"},
    "outside_claim": ["moduli not in the list for inv, / and pow (inv at 65537 and above, pow at the 30/31-bit moduli and new/* at 1000000007 gave no CBMC verdict within 3000 s and are not claimed; new,+,-,* for every modulus are decided by the SMT engine)", "pow with large exponents at large moduli", "Display/Debug/Show", "Readable (one-line forwarder new(read::<i64>()))", "M >= 2^31 (outside the property)"],
    "stubs_and_assumes": ["elements are built by new(v) with 0<=v<M after new is shown onto [0,M)", "specification shares the i64 remainder term with the implementation (rem_euclid)"],
    "assumptions": ["Kani/CBMC translation of MIR is faithful", "one instantiation per modulus (const generic)"],
}

QUICK_M = [7, 12, 998244353, 2147483647]
ALL_M = [2, 3, 4, 7, 12, 251, 256, 65537, 998244353, 1000000007, 2147483646, 2147483647]


def obligations(tier, seed):
    obs = []
    def add(h, **kw):
        kw.setdefault("timeout", 900 if tier == "quick" else 3000)
        obs.append(Ob("num", "mint::" + h, **kw))
    ms = QUICK_M if tier == "quick" else ALL_M
    for m in ms:
        if tier == "quick" and m == 998244353:
            # the 30-bit prime: new/+/- here; * and inv take ~15 min each under CBMC (thorough tier); * for EVERY modulus is
            # decided by the SMT obligations with a symbolic modulus
            add("c06_new_m%d" % m, covers=2, desc="new(v) = v mod M in [0,M) for every i64 v", bounds="M=%d, all v" % m, timeout=1800)
            add("c06_addsub_m%d" % m, covers=3, desc="+,-,neg", bounds="M=%d, all pairs" % m)
            continue
        if m != 1000000007:     # no CBMC verdict in 3000 s at this modulus (new and * for EVERY modulus are decided by the SMT engine below)
            add("c06_new_m%d" % m, covers=2, desc="new(v) = v mod M in [0,M) for every i64 v", bounds="M=%d, all v" % m)
        add("c06_addsub_m%d" % m, covers=3, desc="+,-,neg and assigning forms give the canonical representative; == is representative equality", bounds="M=%d, all pairs" % m)
        if m != 1000000007:
            add("c06_mul_m%d" % m, covers=1, desc="* and *= give the representative of the integer product", bounds="M=%d, all pairs" % m)
    inv_m = [2, 7, 12, 13] if tier == "quick" else [2, 3, 4, 5, 6, 7, 8, 9, 10, 11, 12, 13, 16, 61, 251, 256]     # 65537 and above: no CBMC verdict in 3000 s (stated outside the claim)
    for m in inv_m:
        add("c06_inv_m%d" % m, covers=2, desc="y*inv(y)=1 and (x/y)*y=x for every unit y (windows at large M)", bounds="M=%d" % m)
    pow_m = [2, 7, 12] if tier == "quick" else [2, 3, 4, 7, 9, 12, 13]     # the 30/31-bit moduli: no CBMC verdict in 3000 s
    for m in pow_m:
        add("c06_pow_m%d" % m, covers=1, desc="pow(d) = d-fold product", bounds="M=%d, d<=16, all bases" % m)
    for p in ([2] if tier == "quick" else [2, 3, 5, 7]):
        add("c06_powall_p%d" % p, covers=2, desc="pow over every 64-bit exponent = Fermat-reduced product", bounds="p=%d, all d<2^64" % p)
    add("c06_twin_false", expect="fail", desc="deliberately false twin")
    return obs


# ---------------------------------------------------------------- all moduli at once (mirsym on the MIR of rlib_mint, z3)
import os, sys, json, subprocess, time
from vp import kani as _k

META["functions_encoded"].append("MIR of rlib_mint::Modular::<M>::{new,add,sub,neg,mul,add_assign,sub_assign,mul_assign,eq,read,write} with the const generic M a SYMBOLIC operand (2 <= M < 2^31)")
META["bounds"]["quick"] += "; new,+,-,neg,*,assigning forms,==,Readable,Writable for EVERY modulus 2 <= M < 2^31 and all operands (SMT, symbolic modulus)"
META["stubs_and_assumes"] += ["Reader::read::<i64> = arbitrary i64; <u32 as Writable>::write = recording stub", "mul is discharged as three lemmas (product non-negative; srem = urem for non-negative dividends; remainder fits i32) plus the path obligation under their instances"]

REPLAY_MAIN = '''use rlib_mint::Modular;
fn main() {
    const M: u32 = %(M)d;
    type Z = Modular<M>;
    let x = Z::new(%(x)d);
    let y = Z::new(%(y)d);
    let v: i64 = %(v)d;
    println!("new={}", Z::new(v).inner());
    println!("add={}", (x + y).inner());
    println!("sub={}", (x - y).inner());
    println!("neg={}", (-x).inner());
    println!("mul={}", (x * y).inner());
    println!("eq={}", x == y);
    let text = format!("{}", v);
    let mut r = rlib_io::Reader::new(Box::new(std::io::Cursor::new(text.into_bytes())));
    let z: Z = r.read();
    println!("read={}", z.inner());
}
'''


def native_mint(vals):
    d = os.path.join(_k.BUILD, "C06", "mintreplay")
    os.makedirs(os.path.join(d, "src"), exist_ok=True)
    open(os.path.join(d, "Cargo.toml"), "w").write('[package]\nname = "vh_mintreplay"\nversion = "0.0.0"\nedition = "2021"\n\n[workspace]\n\n[dependencies]\nrlib_mint = { path = "%s/rlib/mint" }\nrlib_io = { path = "%s/rlib/io" }\n' % (_k.REPO, _k.REPO))
    open(os.path.join(d, "src", "main.rs"), "w").write(REPLAY_MAIN % vals)
    env = dict(os.environ); env["CARGO_NET_OFFLINE"] = "true"
    p = subprocess.run(["cargo", "run", "--offline", "-q"], cwd=d, env=env, stdout=subprocess.PIPE, stderr=subprocess.PIPE, text=True, timeout=300)
    return dict(l.split("=") for l in p.stdout.strip().splitlines() if "=" in l), p.stderr[-300:]


def expected_mint(vals):
    M, x, y, v = vals["M"], vals["x"] % vals["M"], vals["y"] % vals["M"], vals["v"]
    return {"new": str(v % M), "add": str((x + y) % M), "sub": str((x - y) % M), "neg": str((-x) % M), "mul": str(x * y % M), "eq": str(x == y).lower(), "read": str(v % M)}


def run_engine(tier, seed, known, only):
    sys.path.insert(0, _k.VERIF)
    from mirsym import core
    from mirsym.mint_check import MintProgram, MintCheck
    out = {"records": [], "violations": [], "known": [], "inconclusive": []}
    try:
        txt = core.dump_mir(_k.REPO, "rlib/mint", os.path.join(_k.BUILD, "C06", "mir"), False, "rel")
        P = MintProgram(txt)
        res = MintCheck(P).run_all()
    except core.Unsupported as e:
        out["inconclusive"].append({"obligation": "mint-all-moduli", "reason": "mirsym: %s" % e})
        return out
    for r in res:
        rec = {"name": "allmod:" + r["name"], "engine": "mirsym", "status": r["status"], "ok": r["status"] == "PASS", "queries": r.get("queries", 1), "time": r["time"],
               "solver_time": r["time"], "desc": r["desc"], "bounds": "every modulus 2 <= M < 2^31, all operands"}
        print("  [C06] %-8s %-28s %6.1fs" % (r["status"], rec["name"], r["time"]), flush=True)
        out["records"].append(rec)
        if r["status"] == "UNKNOWN":
            out["inconclusive"].append({"obligation": rec["name"], "reason": r.get("detail", "unknown")})
        elif r["status"] == "FAIL":
            mdl = r.get("model") or {}
            if isinstance(mdl, str):
                mdl = {}
            vals = {"M": mdl.get("M", 7), "x": mdl.get("x", 0), "y": mdl.get("y", 0), "v": mdl.get("v", mdl.get("read0", 0))}
            if vals["v"] >= 1 << 63:
                vals["v"] -= 1 << 64
            key = r["name"].split("_")[0].replace("-lemma-a", "").replace("-lemma-b", "").replace("-lemma-c", "")
            try:
                nat, err = native_mint(vals)
                exp = expected_mint(vals)
                k2 = key if key in exp else None
                bad = [k for k in exp if nat.get(k) != exp[k]] if nat else []
                text = "M=%(M)d x=%(x)d y=%(y)d v=%(v)d" % vals + " native=%s expected=%s %s" % (nat, exp, err if not nat else "")
                ok = bool(bad) or (not nat and "panicked" in err)
            except Exception as e:
                ok, text = False, "replay failed: %r" % (e,)
            if ok:
                rdir = os.path.join(_k.VERIF, "replays", "C06"); os.makedirs(rdir, exist_ok=True)
                path = os.path.join(rdir, "mint_%s.json" % r["name"])
                json.dump({"property": "C06", "obligation": r["name"], "values": vals, "native": text}, open(path, "w"), indent=1)
                out["violations"].append("VIOLATION property=C06 replay=%s" % os.path.relpath(path, _k.VERIF))
            else:
                out["inconclusive"].append({"obligation": rec["name"], "reason": "refuted in the model (%s) but not reproduced natively: %s" % (r.get("detail"), text[:200])})
    return out
