"""C17 — treaps can be built concurrently on different threads without racing (engine: mirsym, two interpreter threads,
the schedule is the explored input, the generator state is symbolic)."""
import os, sys, time, json, subprocess
VERIF = os.path.dirname(os.path.dirname(os.path.dirname(os.path.abspath(__file__))))
sys.path.insert(0, VERIF)
from vp import kani as _k
BUILD = os.path.join(_k.BUILD, "C17")

META = {
    "functions_encoded": ["MIR of rlib_treap::TreapNode::<T>::new -> gen_priority (+ its closure and the thread_local initialiser when present)", "MIR of rlib_rand::LinearCongruentialGenerator64::{from_seed,next_raw}"],
    "bounds": {"quick": "2 threads x 1 node creation each: every sequentially consistent interleaving of their accesses to process-wide memory; all 2^64 initial generator states for the outcome verdict",
               "thorough": "2 threads x 2 creations each"},
    "outside_claim": ["weak-memory behaviours beyond sequential consistency, and what undefined behaviour permits once a race exists (the check finds the race)", "more than two threads",
                      "'every thread's treap results equal those of the same operations run alone' follows from C03 (results do not depend on priorities) and is not re-checked here",
                      "modelled synchronisation: thread_local!/Cell, a static std::sync::Mutex around the generator, scalar static atomics (load/store/swap/fetch_add/fetch_sub/compare_exchange, explored as SC); anything else (RwLock, Condvar, arrays of atomics, fetch_update closures, ...) is reported inconclusive, never as a violation or a pass"],
    "stubs_and_assumes": ["process-wide memory = statics reached through `const {alloc..}`; thread_local! = one instance per interpreter thread created by the dumped initialiser; Cell::get/set = plain thread-private accesses",
                          "threads are advanced by re-execution with a log of the values they have read (deterministic given that log)",
                          "Mutex::lock = blocking acquire (never poisoned), guard drop = release; atomics = one indivisible access each; the initial generator state inside a Mutex/static is symbolic, other statics start from their dumped bytes"],
    "assumptions": ["rustc's MIR dump is the semantics of the compiled code", "a data race = two adjacent conflicting unsynchronised accesses in some sequentially consistent execution"],
}


def miri_replay():
    env = dict(os.environ); env["CARGO_NET_OFFLINE"] = "true"; env["MIRIFLAGS"] = "-Zmiri-disable-isolation"
    try:
        p = subprocess.run(["cargo", "+nightly", "miri", "test", "--offline", "--test", "two_threads", "--target-dir", os.path.join(BUILD, "miri")], cwd=_k.crate_dir("treapmiri"), env=env,
                           stdout=subprocess.PIPE, stderr=subprocess.STDOUT, text=True, timeout=900)
    except subprocess.TimeoutExpired:
        return None, "miri timed out"
    lines = [l for l in p.stdout.splitlines() if "Data race" in l or "Undefined Behavior" in l or "test result" in l or "panicked" in l]
    bad = any("Data race" in l or "Undefined Behavior" in l or "FAILED" in l or "panicked" in l for l in lines)
    ok = any("test result: ok. 1 passed" in l for l in lines)
    return (True if bad else (False if ok else None)), " | ".join(lines)[:600]


def native_stress():
    """outcome violations without a memory-level race: native multi-thread stress run of the real crate (release profile)"""
    env = dict(os.environ); env["CARGO_NET_OFFLINE"] = "true"
    try:
        p = subprocess.run(["cargo", "test", "--release", "--offline", "--test", "streams", "--target-dir", os.path.join(BUILD, "native")], cwd=_k.crate_dir("treapmiri"), env=env,
                           stdout=subprocess.PIPE, stderr=subprocess.STDOUT, text=True, timeout=900)
    except subprocess.TimeoutExpired:
        return None, "native stress run timed out"
    lines = [l for l in p.stdout.splitlines() if "test result" in l or "panicked" in l or "handed out" in l or l.startswith("error")]
    bad = any("panicked" in l or "FAILED" in l for l in lines)
    ok = any("test result: ok. 1 passed" in l for l in lines)
    return (True if bad else (False if ok else None)), " | ".join(lines)[:600]


def analyse(P, k, stop_at_first=True):
    from mirsym.conc_check import explore_schedules, outcome_violation
    sch = explore_schedules(P, k, max_schedules=20000, stop_at_race=stop_at_first)
    race = next((s["race"] for s in sch if s["race"]), None)
    outcome = None
    nq = 0
    for s in sch:
        if s["results"][0] is None or s["results"][1] is None:
            continue
        nq += 1
        v = outcome_violation(P, k, s)
        if v:
            outcome = dict(schedule=s["schedule"], **v)
            break
    return sch, race, outcome, nq


def run_engine(tier, seed, known, only):
    from mirsym import core
    from mirsym.conc_check import ConcProgram
    out = {"records": [], "violations": [], "known": [], "inconclusive": []}
    t0 = time.time()
    fx = os.path.join(VERIF, "mirsym", "fixtures")
    try:
        # ---- self-test (vacuity guard): the engine must find the race and the duplicated draw in the recorded MIR of the
        # unsynchronised `static mut` version
        rand_fx = open(os.path.join(fx, "rand_for_racy.mir")).read()
        # (fixture, must find a data race, must find a non-sequential outcome)
        for name, want_race, want_outcome, what in (("treap_racy.mir", True, True, "unsynchronised `static mut` generator"),
                                                    ("treap_mutex_split.mir", False, True, "Mutex released between reading and writing back the generator"),
                                                    ("treap_atomic_lost.mir", False, True, "atomic load .. store (lost update)"),
                                                    ("treap_mutex_ok.mir", False, False, "generator stepped under one Mutex critical section"),
                                                    ("treap_cas_ok.mir", False, False, "compare_exchange retry loop")):
            t1 = time.time()
            Pf = ConcProgram(open(os.path.join(fx, name)).read(), rand_fx)
            sch, race, outcome, nq = analyse(Pf, 1, stop_at_first=False)
            ok = (race is not None) == want_race and (outcome is not None) == want_outcome
            bad_expected = want_race or want_outcome
            out["records"].append({"name": "self-test on recorded MIR: " + what, "engine": "mirsym", "status": ("FAIL" if bad_expected else "PASS") if ok else "VACUOUS", "ok": ok,
                                   "expect": "fail" if bad_expected else "pass", "queries": nq + len(sch),
                                   "desc": "recorded fixture %s: race %s, non-sequential outcome %s (%d schedules)" % (name, "must be found" if want_race else "must not be reported",
                                                                                                                   "must be found" if want_outcome else "must not be reported", len(sch)),
                                   "bounds": "k=1", "time": time.time() - t1})
            if not ok:
                out["inconclusive"].append({"obligation": "self-test " + name, "reason": "engine verdict on the recorded fixture is not the expected one (race=%s outcome=%s)" % (race is not None, outcome is not None)})
                return out
        tt = core.dump_mir(_k.REPO, "rlib/treap", os.path.join(BUILD, "mir"), False, "rel")
        rt = core.dump_mir(_k.REPO, "rlib/rand", os.path.join(BUILD, "mir"), False, "rel")
        for k in ((1,) if tier == "quick" else (1, 2)):
            t1 = time.time()
            P = ConcProgram(tt, rt)
            sch, race, outcome, nq = analyse(P, k)
            rec = {"name": "two threads x %d creations" % k, "engine": "mirsym", "status": "PASS", "ok": True, "queries": nq + len(sch), "time": time.time() - t1,
                   "desc": "%d schedules explored; shared accesses per schedule: %s; race freedom and sequential-outcome verdicts" % (len(sch), len(sch[0]["schedule"]) if sch else 0),
                   "bounds": "k=%d, all interleavings, all 2^64 generator states" % k, "covers": "priorities drawn: %s" % (sch[0]["results"][0] is not None)}
            print("  [C17] k=%d schedules=%d race=%s outcome_violation=%s %.1fs" % (k, len(sch), race is not None, outcome is not None, time.time() - t1), flush=True)
            if sch and (sch[0]["results"][0] is None and race is None):
                out["inconclusive"].append({"obligation": rec["name"], "reason": "no priority was drawn (vacuous)"})
            if race or outcome:
                rec.update(status="FAIL", ok=False, violation={"race": race, "outcome": outcome})
                rep, text = miri_replay() if race else native_stress()
                rdir = os.path.join(VERIF, "replays", "C17"); os.makedirs(rdir, exist_ok=True)
                path = os.path.join(rdir, "conc_k%d.json" % k)
                json.dump({"property": "C17", "race": race, "outcome": outcome, "native": text, "how": "cd harness/treapmiri && cargo +nightly miri test --offline --test two_threads" if race else "cd harness/treapmiri && cargo test --release --offline --test streams"}, open(path, "w"), indent=1, default=str)
                print("  [C17] native (%s): %s" % ("Miri" if race else "4-thread stress run", text[:300]), flush=True)
                if rep:
                    from vp.check import match_known
                    hits, rest = match_known("C17", "static-mut-rng-race", ["race" if race else "outcome"], known)
                    if hits and not rest:
                        for kf in hits:
                            out["known"].append("KNOWN-FINDING: property=C17 %s" % kf["what"])
                    else:
                        out["violations"].append("VIOLATION property=C17 replay=%s" % os.path.relpath(path, VERIF))
                else:
                    out["inconclusive"].append({"obligation": rec["name"], "reason": "model-level race/outcome violation not confirmed by Miri/native: %s" % text[:200]})
            out["records"].append(rec)
            if race or outcome:
                break
        META["functions_encoded_this_run"] = sorted(P.used_fns)
        META["std_models_used"] = sorted(P.used_models)
    except core.Unsupported as e:
        out["inconclusive"].append({"obligation": "two-thread exploration", "reason": "mirsym: %s" % e})
    return out


def replay(path):
    d = json.load(open(path))
    rep, text = miri_replay() if d.get("race") else native_stress()
    print(text)
    print("REPRODUCED" if rep else "not reproduced")
    return 1 if rep else 0
