"""C18 — f80 arithmetic is correctly rounded; comparisons follow IEEE order.
Engine: the Rust glue runs on the MIR (mirsym), every asm! terminator is interpreted by x87sym over SMT-LIB FloatingPoint(15,64);
if the MIR route meets something it does not model, the older source-level reader of x87sym (regex over asm! blocks + a small glue
grammar) is tried before the run is declared inconclusive."""
import os, sys, time, json, subprocess, struct, itertools, hashlib
VERIF = os.path.dirname(os.path.dirname(os.path.dirname(os.path.abspath(__file__))))
sys.path.insert(0, VERIF)
from vp import kani as _k
import z3
from x87.x87sym import F80Model, F80, F64, RNE, Unsupported

BUILD = os.path.join(_k.BUILD, "C18")

META = {
    "functions_encoded": ["MIR of rlib_f80 (dumped on each run): add, sub, mul, div, neg, eq, lt, gt, le, ge, partial_cmp, abs, min, max, From<f64> for f80, From<f80> for f64 and whatever private helpers they call — the Rust glue is executed by mirsym",
                          "every asm! terminator reached (template after macro expansion, operands as MIR values) interpreted by x87sym; fallback when the MIR route meets an unmodelled construct: asm! blocks and a small glue grammar read from the source"],
    "bounds": {"quick": "all pairs of f64 bit patterns (2^128 operand pairs: zeros, subnormals, infinities, NaN included), one operation each; all f80 values for the narrowing conversion",
               "thorough": "same obligations, additionally re-answered by cvc5 where it terminates within the cap"},
    "outside_claim": ["chains of operations (each single operation correctly rounded => chains are, by composition)", "Display/Debug/Show", "x87 control word other than the default (extended precision, round-to-nearest-even)",
                      "NaN payloads and the sign of NaN (SMT-LIB has a single NaN)", "pseudo-denormal/unnormal encodings (not producible from f64 operands)"],
    "stubs_and_assumes": ["instruction semantics table (about 20 x87 instructions) = SMT-LIB fp.add/sub/mul/div RNE, fp.neg, fcomi/fucomi flags per the Intel SDM incl. unordered = ZF,PF,CF all set",
                          "any instruction or glue shape outside the modelled subset aborts the run as inconclusive",
                          "an f80 in memory = its FloatingPoint(15,64) value; bytes are derived on demand (sign | exponent | explicit integer bit | fraction); a NaN's bytes are a quiet NaN with arbitrary sign and payload; decoding bytes assumes a canonical encoding (integer bit consistent with the exponent)",
                          "a register the template writes only partly (seta al with out(\"ax\")) has fresh, unconstrained upper bits; MaybeUninit::assume_init of memory the template did not write is inconclusive"],
    "assumptions": ["the SMT-LIB FloatingPoint(15,64) theory as implemented by z3 matches x87 extended-precision arithmetic (validated per run against the real FPU on a boundary set)"],
}

BOUNDARY = [0x0000000000000000, 0x8000000000000000, 0x0000000000000001, 0x800fffffffffffff, 0x0010000000000000, 0x3ff0000000000000, 0xbff0000000000000,
            0x3ff0000000000001, 0x3fefffffffffffff, 0x4000000000000000, 0x7fefffffffffffff, 0xffefffffffffffff, 0x7ff0000000000000, 0xfff0000000000000,
            0x7ff8000000000000, 0x3fb999999999999a, 0x4340000000000000, 0x3ca0000000000000, 0x400921fb54442d18, 0xc3e0000000000000]


def f64_of_bits(bits):
    return z3.fpBVToFP(z3.BitVecVal(bits, 64), F64)


def _numeral(v):
    """a closed term whose NaN bytes mention fresh sign/payload variables is not a numeral after simplification: decide NaN-ness
    with the solver, otherwise take the (unique up to NaN encoding) value from a model"""
    v = z3.simplify(v)
    if z3.is_fp_value(v):
        return v
    s = z3.Solver(); s.set("timeout", 20000)
    s.add(z3.Not(z3.fpIsNaN(v)))
    r = s.check()
    if r == z3.unsat:
        return z3.fpNaN(v.sort())
    if r == z3.sat:
        return s.model().eval(v, model_completion=True)
    raise Unsupported("cannot evaluate a floating-point term")


def x87_repr(v):
    """z3 FP(15,64) numeral -> 'se:sig' as printed by the native binary (NaN -> 'nan')"""
    v = _numeral(v)
    if v.isNaN():
        return "nan"
    bv = z3.simplify(z3.fpToIEEEBV(v)).as_long()
    sign, exp, frac = bv >> 78, (bv >> 63) & 0x7fff, bv & ((1 << 63) - 1)
    sig = frac | ((1 << 63) if exp != 0 else 0)
    return "%04x:%016x" % ((sign << 15) | exp, sig)


def native_norm(s):
    se, sig = s.split(":")
    if int(se, 16) & 0x7fff == 0x7fff and int(sig, 16) & ((1 << 63) - 1) != 0:
        return "nan"
    return s


def f64_repr(v):
    v = _numeral(v)
    if v.isNaN():
        return "nan"
    return "%016x" % z3.simplify(z3.fpToIEEEBV(v)).as_long()


def native_f64_norm(s):
    b = int(s, 16)
    if (b >> 52) & 0x7ff == 0x7ff and b & ((1 << 52) - 1):
        return "nan"
    return s


def build_native():
    os.makedirs(BUILD, exist_ok=True)
    env = dict(os.environ); env["CARGO_NET_OFFLINE"] = "true"
    p = subprocess.run(["cargo", "build", "--offline", "--target-dir", os.path.join(BUILD, "f80replay")], cwd=_k.crate_dir("f80replay"), env=env,
                       stdout=subprocess.PIPE, stderr=subprocess.STDOUT, text=True)
    if p.returncode != 0:
        raise RuntimeError("f80replay build failed: " + p.stdout[-400:])
    return os.path.join(BUILD, "f80replay", "debug", "vh_f80replay")


def native(exe, pairs):
    args = []
    for a, b in pairs:
        args += ["%016x" % a, "%016x" % b]
    out = subprocess.run([exe] + args, stdout=subprocess.PIPE, text=True, timeout=120).stdout.strip().splitlines()
    return [dict(kv.split("=") for kv in line.split(";")) for line in out]


class Terms:
    def __init__(self, M, a64, b64):
        self.M = M
        A, B = M.widen(a64), M.widen(b64)
        SA, SB = z3.fpToFP(RNE, a64, F80), z3.fpToFP(RNE, b64, F80)
        self.A, self.B, self.SA, self.SB = A, B, SA, SB
        self.impl = {"widen_a": A, "widen_b": B, "rt_a": M.narrow(A)}
        self.spec = {"widen_a": SA, "widen_b": SB, "rt_a": a64}
        for f, op in (("add", z3.fpAdd), ("sub", z3.fpSub), ("mul", z3.fpMul), ("div", z3.fpDiv)):
            self.impl[f] = M.binop(f, A, B)
            self.spec[f] = op(RNE, SA, SB)
        self.impl["neg"] = M.unop("neg", A)
        self.spec["neg"] = z3.fpNeg(SA)
        for f, op in (("lt", z3.fpLT), ("gt", z3.fpGT), ("le", z3.fpLEQ), ("ge", z3.fpGEQ), ("eq", z3.fpEQ)):
            self.impl[f] = M.method(f, A, B)
            self.spec[f] = op(SA, SB)
        self.impl["ne"] = M.method("ne", A, B)
        self.spec["ne"] = z3.Not(z3.fpEQ(SA, SB))
        self.pc = M.partial_cmp(A, B)
        un = z3.Or(z3.fpIsNaN(SA), z3.fpIsNaN(SB))
        self.pc_spec = {None: un, "Less": z3.fpLT(SA, SB), "Equal": z3.fpEQ(SA, SB), "Greater": z3.fpGT(SA, SB)}
        self.impl["min"], self.impl["max"], self.impl["abs"] = M.minmax("min", A, B), M.minmax("max", A, B), M.abs(A)
        self.spec["min"], self.spec["max"], self.spec["abs"] = z3.fpMin(SA, SB), z3.fpMax(SA, SB), z3.fpAbs(SA)
        self.impl["nar_add"] = M.narrow(self.impl["add"])
        self.spec["nar_add"] = z3.fpToFP(RNE, self.spec["add"], F64)
        self.impl["nar_div"] = M.narrow(self.impl["div"])
        self.spec["nar_div"] = z3.fpToFP(RNE, self.spec["div"], F64)


def f80_obligations(T, a64, b64):
    nonnan = z3.And(z3.Not(z3.fpIsNaN(a64)), z3.Not(z3.fpIsNaN(b64)))
    O = []
    def ob(name, role, claim, key, desc):
        O.append(dict(name=name, role=role, claim=claim, key=key, desc=desc))
    ob("widen-exact", "conversion", T.impl["widen_a"] == T.spec["widen_a"], "widen_a", "f64 -> f80 is exact")
    ob("roundtrip", "conversion", T.impl["rt_a"] == a64, "rt_a", "f64 -> f80 -> f64 is the identity")
    for f in ("add", "sub", "mul", "div", "neg"):
        ob("op-" + f, "arith-" + f, T.impl[f] == T.spec[f], f, "%s = exact result rounded to a 64-bit significand (RNE), operand order and signs of zero included" % f)
    ob("narrow-sum", "conversion", T.impl["nar_add"] == T.spec["nar_add"], "nar_add", "f80 -> f64 rounds correctly (on sums)")
    ob("narrow-quotient", "conversion", T.impl["nar_div"] == T.spec["nar_div"], "nar_div", "f80 -> f64 rounds correctly (on quotients)")
    for f, role in (("lt", "lt"), ("gt", "gt"), ("le", "le-nan"), ("ge", "ge-nan")):
        ob("cmp-" + f, role, T.impl[f] == T.spec[f], f, "%s agrees with the IEEE relation (NaN unordered, -0 = +0)" % f)
    for k, role in ((None, "partial-cmp-nan"), ("Less", "partial-cmp"), ("Equal", "partial-cmp-nan"), ("Greater", "partial-cmp")):
        ob("partial_cmp-%s" % k, role, T.pc[k] == T.pc_spec[k], "pcmp", "partial_cmp returns %s exactly when IEEE says so" % k)
    ob("eq-ieee", "eq-bytewise", T.impl["eq"] == T.spec["eq"], "eq", "== agrees with IEEE equality (-0 == +0, NaN != NaN)")
    ob("ne-ieee", "eq-bytewise", T.impl["ne"] == T.spec["ne"], "ne", "!= is the negation of IEEE equality")
    ob("eq-consistent-with-partial_cmp", "eq-bytewise", T.impl["eq"] == T.pc["Equal"], "eq", "== holds exactly when partial_cmp is Some(Equal)")
    for f in ("min", "max"):
        ob(f + "-value", "minmax", z3.Implies(nonnan, z3.And(z3.fpEQ(T.impl[f], T.spec[f]), z3.Or(T.impl[f] == T.A, T.impl[f] == T.B))), f,
           "%s of non-NaN operands has the IEEE %s value and is one of the operands" % (f, f))
    ob("abs-value", "abs", z3.Implies(z3.Not(z3.fpIsNaN(a64)), z3.fpEQ(T.impl["abs"], T.spec["abs"])), "abs", "abs of a non-NaN operand")
    return O


def wide_obligations(M, X, Y):
    """comparisons, equality, min/max/abs/neg and the narrowing conversion on ARBITRARY f80 values (not only images of f64:
    results of earlier operations need all 64 significand bits)"""
    O = []
    def ob(name, role, claim, key, desc, impl, spec):
        O.append(dict(name=name, role=role, claim=claim, key=key, desc=desc, impl=impl, spec=spec, wide=True))
    for f, op in (("lt", z3.fpLT), ("gt", z3.fpGT), ("le", z3.fpLEQ), ("ge", z3.fpGEQ), ("eq", z3.fpEQ)):
        i_, s_ = M.method(f, X, Y), op(X, Y)
        ob("wide-" + f, "wide-" + f, i_ == s_, f, "%s on arbitrary f80 values agrees with the IEEE relation" % f, i_, s_)
    pc = M.partial_cmp(X, Y)
    un = z3.Or(z3.fpIsNaN(X), z3.fpIsNaN(Y))
    spec = {None: un, "Less": z3.fpLT(X, Y), "Equal": z3.fpEQ(X, Y), "Greater": z3.fpGT(X, Y)}
    for k in (None, "Less", "Equal", "Greater"):
        ob("wide-partial_cmp-%s" % k, "wide-partial-cmp", pc[k] == spec[k], "pcmp", "partial_cmp on arbitrary f80 values: %s exactly when IEEE says so" % k, pc, spec)
    ob("wide-eq-consistent", "wide-eq", M.method("eq", X, Y) == pc["Equal"], "eq", "== holds exactly when partial_cmp is Some(Equal), for arbitrary f80 values", M.method("eq", X, Y), pc["Equal"])
    nn = z3.And(z3.Not(z3.fpIsNaN(X)), z3.Not(z3.fpIsNaN(Y)))
    for f, sp in (("min", z3.fpMin), ("max", z3.fpMax)):
        r = M.minmax(f, X, Y)
        ob("wide-" + f, "wide-minmax", z3.Implies(nn, z3.And(z3.fpEQ(r, sp(X, Y)), z3.Or(r == X, r == Y))), f, "%s of arbitrary non-NaN f80 values" % f, r, sp(X, Y))
    r = M.abs(X)
    ob("wide-abs", "wide-abs", z3.Implies(z3.Not(z3.fpIsNaN(X)), z3.fpEQ(r, z3.fpAbs(X))), "abs", "abs of an arbitrary non-NaN f80 value", r, z3.fpAbs(X))
    r = M.unop("neg", X)
    ob("wide-neg", "wide-neg", r == z3.fpNeg(X), "neg", "negation of an arbitrary f80 value (sign of zero included)", r, z3.fpNeg(X))
    r = M.narrow(X)
    ob("wide-narrow", "wide-narrow", r == z3.fpToFP(RNE, X, F64), "nar", "f80 -> f64 is the correctly rounded value (round to nearest even), for every f80 value", r, z3.fpToFP(RNE, X, F64))
    return O


def native_raw(exe, xa, xb):
    def enc(v):
        if v.isNaN():
            return ["7fff", "c000000000000000"]
        bv = z3.simplify(z3.fpToIEEEBV(v)).as_long()
        sign, exp, frac = bv >> 78, (bv >> 63) & 0x7fff, bv & ((1 << 63) - 1)
        return ["%04x" % ((sign << 15) | exp), "%016x" % (frac | ((1 << 63) if exp != 0 else 0))]
    out = subprocess.run([exe, "raw"] + enc(xa) + enc(xb), stdout=subprocess.PIPE, text=True, timeout=60).stdout.strip()
    return dict(kv.split("=") for kv in out.split(";")) if out else {}


def show_native_key(nat, key):
    return nat.get(key)


def model_value(mdl, term, key):
    v = mdl.eval(term, model_completion=True)
    if z3.is_bool(v):
        return str(z3.is_true(v)).lower()
    if v.sort() == F64:
        return f64_repr(v)
    return x87_repr(v)


def pc_value(mdl, pc):
    for k, c in pc.items():
        if z3.is_true(mdl.eval(c, model_completion=True)):
            return str(k)
    return "?"


def nat_value(nat, key):
    s = nat[key]
    if ":" in s:
        return native_norm(s)
    if key in ("rt_a", "nar_add", "nar_div"):
        return native_f64_norm(s)
    return s


def run_engine(tier, seed, known, only):
    from vp.check import match_known
    t0 = time.time()
    out = {"records": [], "violations": [], "known": [], "inconclusive": []}
    src_path = os.path.join(_k.REPO, "rlib", "f80", "src", "lib.rs")
    try:
        exe = build_native()
        src = open(src_path).read()
        a64, b64 = z3.FP("a", F64), z3.FP("b", F64)
        from mirsym import core as _core
        from mirsym.f80_check import MirF80Model
        route = "MIR (mirsym glue + x87sym asm)"
        try:
            mir = _core.dump_mir(_k.REPO, "rlib/f80", os.path.join(BUILD, "mir"), False, "rel")
            M = MirF80Model(mir)
            T = Terms(M, a64, b64)
            obs = f80_obligations(T, a64, b64)
        except (_core.Unsupported, _core.PathLimit) as e1:
            route = "source (x87sym regex reader); the MIR route stopped at: %s" % e1
            try:
                M = F80Model(src)
                T = Terms(M, a64, b64)
                obs = f80_obligations(T, a64, b64)
            except Unsupported as e2:
                raise Unsupported("MIR route: %s; source route: %s" % (e1, e2))
            except (KeyError, TypeError, AttributeError, IndexError) as e2:
                raise Unsupported("MIR route: %s; source route crashed on an unexpected shape: %r" % (e1, e2))
        if getattr(M, "panic_conds", None):
            obs.append(dict(name="no-panic", role="panic", claim=z3.Not(z3.Or([c for _, c, _ in M.panic_conds])), key="panic",
                            desc="no operation panics for any operand pair (%s)" % ", ".join(sorted({f for f, _, _ in M.panic_conds}))))
    except Unsupported as e:
        out["inconclusive"].append({"obligation": "encoding", "reason": "x87sym: %s" % e})
        return out
    print("  [C18] route: %s" % route, flush=True)
    META["functions_encoded_this_run"] = sorted(set(M.encoded)) + ["route: " + route] + (["asm templates (from the MIR): " + " || ".join(sorted(set(M.P.asm_templates)))] if hasattr(M, "P") else [])
    # ---- model validation against the real FPU
    pairs = list(itertools.product(BOUNDARY, repeat=2))
    if tier == "quick":
        pairs = pairs[::3]
    nat = native(exe, pairs)
    bad = []
    for (pa, pb), n in zip(pairs, nat):
        sub = [(a64, f64_of_bits(pa)), (b64, f64_of_bits(pb))]
        for key, term in T.impl.items():
            v = z3.simplify(z3.substitute(term, *sub))
            mv = (str(z3.is_true(v)).lower() if z3.is_bool(v) else (f64_repr(v) if v.sort() == F64 else x87_repr(v)))
            if mv != nat_value(n, key):
                bad.append((hex(pa), hex(pb), key, mv, n[key]))
        pcv = [str(k) for k, c in T.pc.items() if z3.is_true(z3.simplify(z3.substitute(c, *sub)))]
        if pcv != [n["pcmp"]]:
            bad.append((hex(pa), hex(pb), "pcmp", pcv, n["pcmp"]))
    rec = {"name": "model-validation", "engine": "x87sym", "status": "PASS" if not bad else "MISMATCH", "ok": not bad, "queries": len(pairs) * (len(T.impl) + 1),
           "desc": "%d concrete operand pairs from the boundary set: every operator term of the SMT model evaluated and compared with the real FPU through the real crate" % len(pairs),
           "bounds": "concrete", "time": time.time() - t0}
    out["records"].append(rec)
    if bad:
        out["inconclusive"].append({"obligation": "model-validation", "reason": "SMT model disagrees with the real FPU: %r" % (bad[:3],)})
        return out
    # ---- obligations
    for o in obs:
        if only and only not in o["name"]:
            continue
        t1 = time.time()
        s = z3.Solver()
        s.set("timeout", 120000 if tier == "quick" else 900000)
        s.add(z3.Not(o["claim"]))
        r = s.check()
        dt = time.time() - t1
        rec = {"name": o["name"], "engine": "x87sym", "status": "PASS", "ok": True, "queries": 1, "time": dt, "solver_time": dt, "desc": o["desc"],
               "bounds": "all pairs of f64 bit patterns"}
        print("  [C18] %-8s %-36s %6.1fs" % ("ok" if r == z3.unsat else ("VIOL" if r == z3.sat else "unknown"), o["name"], dt), flush=True)
        if r == z3.unknown:
            rec.update(status="INCONCLUSIVE", ok=False)
            out["inconclusive"].append({"obligation": o["name"], "reason": "z3 returned unknown (%s)" % s.reason_unknown()})
        elif r == z3.sat:
            mdl = s.model()
            pa = z3.simplify(z3.fpToIEEEBV(mdl.eval(a64, model_completion=True))).as_long() if not mdl.eval(a64, model_completion=True).isNaN() else 0x7ff8000000000000
            pb = z3.simplify(z3.fpToIEEEBV(mdl.eval(b64, model_completion=True))).as_long() if not mdl.eval(b64, model_completion=True).isNaN() else 0x7ff8000000000000
            n = native(exe, [(pa, pb)])[0]
            key = o["key"]
            if key == "pcmp":
                impl_v, spec_v = pc_value(mdl, T.pc), pc_value(mdl, T.pc_spec)
                nat_v = n["pcmp"]
            else:
                impl_v, spec_v = model_value(mdl, T.impl[key], key), (model_value(mdl, T.spec[key], key) if key in T.spec else "?")
                nat_v = nat_value(n, key)
            text = "a=%016x b=%016x: native %s=%s; model impl=%s; IEEE spec=%s" % (pa, pb, key, nat_v, impl_v, spec_v)
            reproduced = (nat_v == impl_v)
            rec.update(status="FAIL", ok=False, violation=text)
            if not reproduced:
                out["inconclusive"].append({"obligation": o["name"], "reason": "counterexample does not reproduce on the real FPU (%s)" % text})
            else:
                rdir = os.path.join(VERIF, "replays", "C18"); os.makedirs(rdir, exist_ok=True)
                path = os.path.join(rdir, "f80_%s.json" % o["name"])
                json.dump({"property": "C18", "obligation": o["name"], "a_bits": "%016x" % pa, "b_bits": "%016x" % pb, "key": key, "native": nat_v, "model_impl": impl_v,
                           "ieee_spec": spec_v, "how": "./check C18 --replay " + os.path.relpath(path, VERIF)}, open(path, "w"), indent=1)
                hits, rest = match_known("C18", o["role"], [o["name"]], known)
                if hits and not rest:
                    for k in hits:
                        out["known"].append("KNOWN-FINDING: property=C18 %s" % k["what"])
                else:
                    out["violations"].append("VIOLATION property=C18 replay=%s" % os.path.relpath(path, VERIF))
        out["records"].append(rec)
    # ---- second family: arbitrary f80 operands
    X, Y = z3.FP("x80", F80), z3.FP("y80", F80)
    try:
        wobs = wide_obligations(M, X, Y)
    except Unsupported as e:
        out["inconclusive"].append({"obligation": "encoding (arbitrary f80 operands)", "reason": "x87sym: %s" % e})
        wobs = []
    for o in wobs:
        if only and only not in o["name"]:
            continue
        t1 = time.time()
        sv = z3.Solver()
        sv.set("timeout", 120000 if tier == "quick" else 900000)
        sv.add(z3.Not(o["claim"]))
        r = sv.check()
        dt = time.time() - t1
        rec = {"name": o["name"], "engine": "x87sym", "status": "PASS", "ok": True, "queries": 1, "time": dt, "solver_time": dt, "desc": o["desc"], "bounds": "all pairs of f80 values"}
        print("  [C18] %-8s %-36s %6.1fs" % ("ok" if r == z3.unsat else ("VIOL" if r == z3.sat else "unknown"), o["name"], dt), flush=True)
        if r == z3.unknown:
            rec.update(status="INCONCLUSIVE", ok=False)
            out["inconclusive"].append({"obligation": o["name"], "reason": "z3 returned unknown"})
        elif r == z3.sat:
            mdl = sv.model()
            xa, xb = mdl.eval(X, model_completion=True), mdl.eval(Y, model_completion=True)
            n = native_raw(exe, xa, xb)
            key = o["key"]
            if key == "pcmp":
                impl_v, spec_v, nat_v = pc_value(mdl, o["impl"]), pc_value(mdl, o["spec"]), n.get("pcmp")
            else:
                ev = lambda t: (str(z3.is_true(mdl.eval(t, model_completion=True))).lower() if z3.is_bool(t) else
                                (f64_repr(mdl.eval(t, model_completion=True)) if t.sort() == F64 else x87_repr(mdl.eval(t, model_completion=True))))
                impl_v, spec_v = ev(o["impl"]), ev(o["spec"])
                nv = n.get(key, "")
                nat_v = native_norm(nv) if ":" in nv else (native_f64_norm(nv) if key == "nar" else nv)
            text = "x=%s y=%s: native %s=%s; model impl=%s; IEEE spec=%s" % (x87_repr(xa), x87_repr(xb), key, nat_v, impl_v, spec_v)
            rec.update(status="FAIL", ok=False, violation=text)
            if nat_v == impl_v and nat_v != spec_v or (key in ("min", "max", "abs") and nat_v == impl_v):
                rdir = os.path.join(VERIF, "replays", "C18"); os.makedirs(rdir, exist_ok=True)
                path = os.path.join(rdir, "f80_%s.json" % o["name"])
                json.dump({"property": "C18", "obligation": o["name"], "x": x87_repr(xa), "y": x87_repr(xb), "key": key, "native": nat_v, "model_impl": impl_v, "ieee_spec": spec_v}, open(path, "w"), indent=1)
                out["violations"].append("VIOLATION property=C18 replay=%s" % os.path.relpath(path, VERIF))
            else:
                out["inconclusive"].append({"obligation": o["name"], "reason": "counterexample does not reproduce on the real FPU (%s)" % text})
        out["records"].append(rec)
    # ---- cvc5 cross-check (thorough)
    if tier == "thorough" and not only:
        for o in obs:
            s = z3.Solver(); s.add(z3.Not(o["claim"]))
            smt = "(set-logic QF_FP)\n" + s.to_smt2()
            p = os.path.join(BUILD, "q_%s.smt2" % o["name"])
            open(p, "w").write(smt)
            t1 = time.time()
            try:
                r = subprocess.run(["cvc5", "--lang", "smt2", "--tlimit=120000", p], stdout=subprocess.PIPE, stderr=subprocess.STDOUT, text=True, timeout=150).stdout.strip()
            except subprocess.TimeoutExpired:
                r = "timeout"
            z3res = [x for x in out["records"] if x["name"] == o["name"]][0]["status"]
            agree = (r.startswith("unsat") and z3res == "PASS") or (r.startswith("sat") and z3res == "FAIL")
            out["records"].append({"name": "cvc5:" + o["name"], "engine": "cvc5", "status": "PASS" if agree else ("UNAVAILABLE" if r.split("\n")[0] not in ("sat", "unsat") else "DISAGREE"),
                                   "ok": agree or r.split("\n")[0] not in ("sat", "unsat"), "queries": 1, "time": time.time() - t1, "desc": "cross-check of the z3 verdict: cvc5 says %s" % r[:40], "bounds": ""})
            if r.split("\n")[0] in ("sat", "unsat") and not agree:
                out["inconclusive"].append({"obligation": o["name"], "reason": "z3 and cvc5 disagree (%s vs %s)" % (z3res, r[:20])})
    return out


def replay(path):
    d = json.load(open(path))
    exe = build_native()
    n = native(exe, [(int(d["a_bits"], 16), int(d["b_bits"], 16))])[0]
    v = n["pcmp"] if d["key"] == "pcmp" else nat_value(n, d["key"])
    print("native %s = %s (IEEE: %s)" % (d["key"], v, d["ieee_spec"]))
    ok = v != d["ieee_spec"]
    print("REPRODUCED" if ok else "not reproduced")
    return 1 if ok else 0
