#!/usr/bin/env python3
"""Generates harness/lam/src/gen.rs: one Kani harness per rec_lambda! shape: capture list over {&, &mut}^k in every order (k<=4),
1..4 arguments, with/without return type, recursive call with/without trailing comma (31*4*2*2 = 496 shapes).
Each closure body reads every shared capture, updates every mutable capture and branches on its arguments; the result and the final
captured state must equal a hand-written fn generated from the same template."""
import itertools, os, sys

def shape_list():
    out = []
    for k in range(0, 5):
        for pat in itertools.product("sm", repeat=k):
            for nargs in (1, 2, 3, 4):
                for ret in (True, False):
                    for trailing in (False, True):
                        out.append((pat, nargs, ret, trailing))
    return out

def name_of(sh):
    pat, nargs, ret, trailing = sh
    return "c20_%s_a%d_%s_%s" % ("".join(pat) or "none", nargs, "ret" if ret else "unit", "tc" if trailing else "nc")

def body(sh, call):
    """the recursion body, as Rust text; `call(args)` renders the recursive call"""
    pat, nargs, ret, trailing = sh
    args = ["a%d" % i for i in range(nargs)]
    shared = ["c%d" % i for i, p in enumerate(pat) if p == "s"]
    muts = ["c%d" % i for i, p in enumerate(pat) if p == "m"]
    # xor / rotate / add-constant only: linear over GF(2) up to carries, so the two copies are easy to equate for SAT,
    # yet position-sensitive (swapping two captures or two arguments changes the value)
    mix = " ^ ".join(["a%d.rotate_left(%d)" % (i, 2 * i + 1) for i in range(nargs)] + ["(*%s).rotate_left(%d)" % (s, j + 2) for j, s in enumerate(shared)])
    L = []
    for j, m in enumerate(muts):
        L.append("*%s = (*%s).rotate_left(%d).wrapping_add(%d) ^ (%s);" % (m, m, j + 1, 2 * j + 3, mix))
    rec_args = ["a0 - 1"] + ["a%d.wrapping_add(%d)" % (i, i) for i in range(1, nargs)]
    if ret:
        # one recursive call site per body: the unrolled recursion stays linear in the depth
        L.append("if a0 == 0 { (%s).wrapping_add(7) } else { let r = %s; if a0 & 1 == 1 { r.rotate_left(3) ^ (%s) } else { r ^ 0x55 } }" % (
            mix, call(rec_args), mix))
    else:
        L.append("if a0 != 0 { %s; }" % call(rec_args))
    return "\n            ".join(L)

def harness(sh):
    pat, nargs, ret, trailing = sh
    n = name_of(sh)
    args = ["a%d" % i for i in range(nargs)]
    caps = ["c%d: &%su32" % (i, "mut " if p == "m" else "") for i, p in enumerate(pat)]
    shared_first = [("c%d" % i, p) for i, p in enumerate(pat)]
    mac_call = lambda a: "f!(" + ", ".join(a) + ("," if trailing else "") + ")"
    fn_params = ", ".join(["%s: u32" % a for a in args] + ["c%d: &%su32" % (i, "mut " if p == "m" else "") for i, p in enumerate(pat)])
    fn_call = lambda a: "refn(" + ", ".join(a + ["c%d" % i for i, p in enumerate(pat)]) + ")"
    L = ["#[kani::proof]", "#[kani::unwind(6)]", "fn %s() {" % n]
    for i, p in enumerate(pat):
        L.append("    let %sc%d: u32 = kani::any();" % ("mut " if p == "m" else "", i))
        L.append("    let %sr%d: u32 = c%d;" % ("mut " if p == "m" else "", i, i))
    for a in args:
        L.append("    let %s: u32 = kani::any();" % a)
    L.append("    kani::assume(a0 <= 3);")
    rt = " -> u32" if ret else ""
    capl = ", ".join(caps)
    argl = ", ".join("%s: u32" % a for a in args)
    L.append("    fn refn(%s)%s {" % (fn_params, rt))
    L.append("            " + body(sh, fn_call))
    L.append("    }")
    L.append("    let %sres = {" % "")
    L.append("        let mut lam = rlib_lambda::rec_lambda!(f, |%s| {" % capl if pat else "        let mut lam = rlib_lambda::rec_lambda!(f, || {")
    L.append("            |%s|%s {" % (argl, rt))
    L.append("            " + body(sh, mac_call))
    L.append("            }")
    L.append("        });")
    L.append("        lam(%s)" % ", ".join(args))
    L.append("    };")
    L.append("    let exp = refn(%s);" % ", ".join(args + ["&%sr%d" % ("mut " if p == "m" else "", i) for i, p in enumerate(pat)]))
    L.append("    assert!(res == exp, \"closure result equals the explicit recursion\");")
    for i, p in enumerate(pat):
        if p == "m":
            L.append("    assert!(c%d == r%d, \"mutable capture %d left in the same state\");" % (i, i, i))
    L.append("    kani::cover!(a0 == 3, \"recursion depth 4 reachable\");")
    L.append("}")
    return "\n".join(L)

def native_test(sh):
    """the same shape as a plain #[test] on concrete values (no kani): decides that the shape EXPANDS (rustc) and doubles
    as a native cross-check of the harness template"""
    pat, nargs, ret, trailing = sh
    n = name_of(sh).replace("c20_", "n20_")
    args = ["a%d" % i for i in range(nargs)]
    caps = ["c%d: &%su32" % (i, "mut " if p == "m" else "") for i, p in enumerate(pat)]
    mac_call = lambda a: "f!(" + ", ".join(a) + ("," if trailing else "") + ")"
    fn_params = ", ".join(["%s: u32" % a for a in args] + ["c%d: &%su32" % (i, "mut " if p == "m" else "") for i, p in enumerate(pat)])
    fn_call = lambda a: "refn(" + ", ".join(a + ["c%d" % i for i, p in enumerate(pat)]) + ")"
    rt = " -> u32" if ret else ""
    L = ["#[test]", "fn %s() {" % n, "    for a0 in 0..4u32 {", "    for seed in [1u32, 0x9e3779b9, 0xffff_fffe] {"]
    for i, p in enumerate(pat):
        L.append("    let %sc%d: u32 = seed.wrapping_mul(%d).rotate_left(%d);" % ("mut " if p == "m" else "", i, 2 * i + 3, i + 1))
        L.append("    let %sr%d: u32 = c%d;" % ("mut " if p == "m" else "", i, i))
    for i, a in enumerate(args[1:], 1):
        L.append("    let %s: u32 = seed ^ %d;" % (a, 0x1111 * i))
    L.append("    fn refn(%s)%s {" % (fn_params, rt))
    L.append("            " + body(sh, fn_call))
    L.append("    }")
    L.append("    let res = {")
    L.append("        let mut lam = rlib_lambda::rec_lambda!(f, |%s| {" % ", ".join(caps) if pat else "        let mut lam = rlib_lambda::rec_lambda!(f, || {")
    L.append("            |%s|%s {" % (", ".join("%s: u32" % a for a in args), rt))
    L.append("            " + body(sh, mac_call))
    L.append("            }")
    L.append("        });")
    L.append("        lam(%s)" % ", ".join(args))
    L.append("    };")
    L.append("    let exp = refn(%s);" % ", ".join(args + ["&%sr%d" % ("mut " if p == "m" else "", i) for i, p in enumerate(pat)]))
    L.append("    assert_eq!(res, exp, \"closure result equals the explicit recursion\");")
    for i, p in enumerate(pat):
        if p == "m":
            L.append("    assert_eq!(c%d, r%d, \"mutable capture %d left in the same state\");" % (i, i, i))
    L += ["    }", "    }", "}"]
    return "\n".join(L)


def main_native(path):
    L = ["//! generated by vp/gen_lam.py - do not edit: every rec_lambda! shape as a plain test (expansion + native cross-check)",
         "#![allow(unused_mut, unused_variables, unused_parens, unused_assignments)]", ""]
    for sh in shape_list():
        L.append(native_test(sh))
        L.append("")
    with open(path, "w") as f:
        f.write("\n".join(L) + "\n")


def main(path, quick=False):
    shapes = shape_list()
    L = ["//! generated by vp/gen_lam.py - do not edit", ""]
    for sh in shapes:
        L.append(harness(sh))
        L.append("")
    L += ["#[kani::proof]", "#[kani::unwind(7)]", "fn c20_twin_false() {", "    let mut acc: u32 = kani::any();", "    let k: u32 = kani::any();", "    let a: u32 = kani::any();",
          "    kani::assume(a <= 3);", "    let res = {", "        let mut lam = rlib_lambda::rec_lambda!(f, |k: &u32, acc: &mut u32| {", "            |n: u32| -> u32 {",
          "                *acc = acc.wrapping_add(*k);", "                if n == 0 { 1 } else { f!(n - 1).wrapping_mul(2) }", "            }", "        });", "        lam(a)", "    };",
          "    assert!(res != 8 || acc == 0, \"twin: deliberately false\");", "}"]
    with open(path, "w") as f:
        f.write("\n".join(L) + "\n")
    return [name_of(s) for s in shapes], shapes

if __name__ == "__main__":
    names, _ = main(os.path.join(os.path.dirname(os.path.dirname(os.path.abspath(__file__))), "harness", "lam", "src", "gen.rs"))
    print(len(names))
