"""Kani runner: one `cargo kani --harness H --exact` per obligation, a pool of worker
target directories (concurrent invocations in one target dir corrupt each other: measured),
per-harness wall-clock cap and address-space cap, parsing of the regular output format."""
import os, re, subprocess, time, threading, queue, shutil, hashlib, json, signal

VERIF = os.path.dirname(os.path.dirname(os.path.abspath(__file__)))
# VERIF_REPO (sensitivity testing only): run the same checks against a scratch worktree instead of /repo, so that several
# seeded changes can be examined in parallel without touching /repo. Registered commands never set it.
REPO = os.environ.get("VERIF_REPO", "/repo")
ALT = "" if REPO == "/repo" else "_alt_" + hashlib.sha1(REPO.encode()).hexdigest()[:8]
BUILD = os.path.join(VERIF, ".build" + ALT)


_crate_cache = {}
_crate_lock = threading.Lock()


def crate_dir(group):
    """harness crate directory; with VERIF_REPO a copy whose path dependencies point at that tree"""
    src = os.path.join(VERIF, "harness", group)
    if not ALT:
        return src
    with _crate_lock:
        if group not in _crate_cache:
            _crate_cache[group] = _crate_copy(group, src)
        return _crate_cache[group]


def _crate_copy(group, src):
    dst = os.path.join(BUILD, "harness", group)
    if os.path.isdir(dst):
        shutil.rmtree(dst)
    shutil.copytree(src, dst, ignore=shutil.ignore_patterns("target", "Cargo.lock"))
    t = open(os.path.join(dst, "Cargo.toml")).read().replace('"/repo/', '"%s/' % REPO)
    open(os.path.join(dst, "Cargo.toml"), "w").write(t)
    return dst
KANI_BASE = ["-Z", "unstable-options", "--no-memory-safety-checks", "--no-assertion-reach-checks"]
MEM_KB = 14_000_000
MARKER = "VERIF-REACHED"


class Ob:
    """One obligation = one Kani proof harness (decided by CBMC + CaDiCaL)."""

    def __init__(self, group, harness, expect="pass", timeout=300, stubbing=False, env=None,
                 desc="", bounds="", covers=0, role=None, features=None, cfgs=None, dbg=True, cbmc_args=None, exists=False, native=None):
        self.group = group          # harness crate under /verif/harness
        self.harness = harness      # fully qualified harness name (module::fn)
        self.expect = expect        # "pass" | "fail" (deliberately false twin: must be refuted)
        self.timeout = timeout
        self.stubbing = stubbing
        self.env = env or {}
        self.desc = desc
        self.bounds = bounds
        self.covers = covers        # number of kani::cover! witnesses that must be SATISFIED
        self.role = role            # key for known_findings matching
        self.features = features or []
        self.cfgs = cfgs or []      # --cfg flags via RUSTFLAGS
        self.dbg = dbg              # debug assertions (dev profile) on/off
        self.cbmc_args = cbmc_args or []
        self.exists = exists        # existential obligation: an unsatisfied cover goal IS the violation (solver: no input reaches it)
        self.native = native        # (test file, test name) under harness/<group>/tests: native probe used as replay for exists-obligations

    def cfg_key(self):
        s = json.dumps([self.group, sorted(self.features), sorted(self.cfgs), self.dbg, self.stubbing,
                        sorted(self.env.items())])
        return hashlib.sha1(s.encode()).hexdigest()[:10]


class Res:
    def __init__(self, ob):
        self.ob = ob
        self.status = "ERROR"     # PASS | FAIL | VACUOUS | TIMEOUT | OOM | ERROR
        self.failed = []          # descriptions of failed checks
        self.checks = 0           # number of CBMC properties decided
        self.covers_sat = 0
        self.covers_total = 0
        self.time = 0.0
        self.solver_time = 0.0
        self.log = ""
        self.note = ""

    def ok(self):
        if self.ob.expect == "fail":
            return self.status == "FAIL"
        return self.status == "PASS"

    def real_failures(self):
        return [f for f in self.failed if not f.get("cover")]


def _env_for(ob):
    env = dict(os.environ)
    env["CARGO_NET_OFFLINE"] = "true"
    env.pop("RUSTUP_TOOLCHAIN", None)
    flags = " ".join("--cfg %s" % c for c in ob.cfgs)
    if flags:
        env["RUSTFLAGS"] = (env.get("RUSTFLAGS", "") + " " + flags).strip()
    env["CARGO_PROFILE_DEV_DEBUG_ASSERTIONS"] = "true" if ob.dbg else "false"
    env.update(ob.env)
    return env


def _cmd_for(ob, tdir, extra=None):
    cmd = ["cargo", "kani"] + KANI_BASE
    if ob.stubbing:
        cmd += ["-Z", "stubbing"]
    if ob.features:
        cmd += ["--features", ",".join(ob.features)]
    cmd += ["--target-dir", tdir, "--harness", ob.harness, "--exact"]
    if extra:
        cmd += extra
    if ob.cbmc_args:
        cmd += ["--cbmc-args"] + ob.cbmc_args
    return cmd


def _run_limited(cmd, cwd, env, timeout, logpath):
    """Run under ulimit -v and a wall-clock cap; kill the whole process group on timeout."""
    sh = "ulimit -v %d; exec \"$@\"" % MEM_KB
    t0 = time.time()
    with open(logpath, "wb") as lf:
        p = subprocess.Popen(["bash", "-c", sh, "bash"] + cmd, cwd=cwd, env=env, stdout=lf,
                             stderr=subprocess.STDOUT, start_new_session=True)
        try:
            p.wait(timeout=timeout)
            to = False
        except subprocess.TimeoutExpired:
            to = True
            try:
                os.killpg(p.pid, signal.SIGKILL)
            except ProcessLookupError:
                pass
            p.wait()
    return p.returncode, to, time.time() - t0


_RE_SUMMARY = re.compile(r"\*\* (\d+) of (\d+) failed")
_RE_COVER = re.compile(r"\*\* (\d+) of (\d+) cover properties satisfied")
_RE_VT = re.compile(r"Verification Time: ([0-9.]+)s")


def parse_output(text, res):
    m = _RE_SUMMARY.search(text)
    if m:
        res.checks = int(m.group(2))
    m = _RE_COVER.search(text)
    if m:
        res.covers_sat, res.covers_total = int(m.group(1)), int(m.group(2))
    m = _RE_VT.search(text)
    if m:
        res.solver_time = float(m.group(1))
    res.failed = []
    # regular format: blocks "Check N: name\n\t - Status: FAILURE\n\t - Description: "..."\n\t - Location: ..."
    for blk in re.finditer(r"Check \d+: (.+)\n\s*- Status: (\w+)\n\s*- Description: \"(.*)\"\n(?:\s*- Location: (.*)\n)?", text):
        name, status, desc, loc = blk.groups()
        if status == "FAILURE":
            res.failed.append({"check": name, "desc": desc, "loc": (loc or "").strip()})
        elif status in ("UNSATISFIABLE", "UNREACHABLE") and ".cover." in name:
            res.failed.append({"check": name, "desc": "cover " + status + ": " + desc, "loc": (loc or "").strip(), "cover": True})
    if "VERIFICATION:- SUCCESSFUL" in text:
        res.status = "PASS"
    elif "VERIFICATION:- FAILED" in text:
        res.status = "FAIL"
        if "Status: ERROR" in text or "std::bad_alloc" in text or "Out of memory" in text or "out of memory" in text:
            res.status = "OOM"
            res.note = "CBMC error / out of memory"
    else:
        res.status = "ERROR"
        tail = text.strip().splitlines()[-15:]
        res.note = " | ".join(tail)[-800:]
    if res.status == "FAIL" and not res.failed:
        res.status = "ERROR"
        res.note = "CBMC reported failure without any failed check (crash / killed / unsupported construct)"
    if res.ob.expect == "panic" and res.status == "FAIL":
        real = [f for f in res.failed if not f.get("cover")]
        marked = [f for f in real if MARKER in f["desc"]]
        unw = [f for f in real if "unwinding assertion" in f["desc"]]
        if unw:
            res.status = "ERROR"
            res.note = "unwinding bound too small: " + unw[0]["loc"]
        elif marked:
            res.failed = marked   # the call returned normally for some input: violation
        elif real:
            res.status = "PASS"   # only panics of the code under test; marker unreachable
            res.note = "rejected by: " + "; ".join(sorted({f["desc"] for f in real}))[:200]
            res.failed = []
    elif res.ob.expect == "panic" and res.status == "PASS":
        res.status = "VACUOUS"
        res.note = "neither a panic nor the marker was reachable"
    if res.status == "FAIL":
        real = [f for f in res.failed if not f.get("cover")]
        unw = [f for f in real if "unwinding assertion" in f["desc"]]
        if real and len(unw) == len(real):
            res.status = "ERROR"
            res.note = "unwinding bound too small: " + unw[0]["loc"]
        elif not real and "unsupported" in text and res.checks == 0:
            res.status = "ERROR"
    if res.status == "PASS" and res.ob.exists and res.covers_total != res.covers_sat:
        res.status = "FAIL"
        res.note = "%d of %d existential goals unreachable for every input" % (res.covers_total - res.covers_sat, res.covers_total)
        for f in res.failed:
            f.pop("cover", None)
    if res.status == "PASS":
        # vacuity: every cover witness must be satisfied
        if res.covers_total != res.covers_sat:
            res.status = "VACUOUS"
            res.note = "%d of %d cover witnesses satisfied" % (res.covers_sat, res.covers_total)
        elif res.ob.covers and res.covers_total < res.ob.covers:
            res.status = "VACUOUS"
            res.note = "expected >= %d cover witnesses, saw %d" % (res.ob.covers, res.covers_total)
    return res


class Pool:
    def __init__(self, prop, workers=None):
        self.prop = prop
        self.workers = workers or int(os.environ.get("VERIF_JOBS", "16"))
        self.root = os.path.join(BUILD, prop)
        os.makedirs(self.root, exist_ok=True)
        self._crates = {}
        self.logdir = os.path.join(self.root, "logs")
        os.makedirs(self.logdir, exist_ok=True)

    def tdir(self, w, ob):
        return os.path.join(self.root, "w%02d_%s" % (w, ob.cfg_key()))

    def run_one(self, ob, w, extra=None, tag=""):
        res = Res(ob)
        if ob.group not in self._crates:
            self._crates[ob.group] = crate_dir(ob.group)
        crate = self._crates[ob.group]
        logpath = os.path.join(self.logdir, ob.harness.replace("::", ".") + tag + ".log")
        rc, to, dt = _run_limited(_cmd_for(ob, self.tdir(w, ob), extra), crate, _env_for(ob), ob.timeout, logpath)
        res.time = dt
        res.log = logpath
        text = open(logpath, errors="replace").read()
        if to:
            res.status = "TIMEOUT"
            res.note = "no verdict within %ds" % ob.timeout
            return res
        parse_output(text, res)
        if res.status == "ERROR" and rc in (-9, 137):
            res.status = "OOM"
        return res

    def run_all(self, obs, progress=True):
        q = queue.Queue()
        # longest first
        for i, ob in sorted(enumerate(obs), key=lambda x: -x[1].timeout):
            q.put((i, ob))
        results = [None] * len(obs)
        lock = threading.Lock()

        def work(w):
            while True:
                try:
                    i, ob = q.get_nowait()
                except queue.Empty:
                    return
                r = self.run_one(ob, w)
                results[i] = r
                if progress:
                    with lock:
                        print("  [%s] %-7s %-52s %6.1fs checks=%d covers=%d/%d %s" % (
                            self.prop, r.status, ob.harness, r.time, r.checks, r.covers_sat, r.covers_total,
                            r.note[:120]), flush=True)

        n = min(self.workers, len(obs))
        ths = [threading.Thread(target=work, args=(w,)) for w in range(n)]
        for t in ths:
            t.start()
        for t in ths:
            t.join()
        return results

    def playback(self, ob, w=0):
        """Re-run a failing harness with concrete playback; returns the generated unit test text or None."""
        res = self.run_one(ob, w, extra=["-Z", "concrete-playback", "--concrete-playback=print"], tag=".playback")
        text = open(res.log, errors="replace").read()
        tests = re.findall(r"```\n(.*?)```", text, re.S)
        if not tests:
            return None
        if ob.expect == "panic":
            tests = [t for t in tests if MARKER in t] or tests
        else:
            tests = [t for t in tests if "unwinding assertion" not in t] or tests
        # Kani also emits a test per satisfied cover! goal; those inputs need not violate anything: prefer the assertion tests
        tests = [t for t in tests if "Check for `cover`" not in t and "cover condition" not in t] or tests
        return tests[0]

    def cleanup(self):
        for d in os.listdir(self.root):
            if d.startswith("w"):
                shutil.rmtree(os.path.join(self.root, d), ignore_errors=True)
