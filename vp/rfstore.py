#!/usr/bin/env python3
"""store behaviour-preserving refactors produced by sub-agents: vp/rfstore.py C05 C17 ...  (reads /tmp/wt/<ID>rf_out/refactor<k>/)
Each is confirmed here: the patch applies to a scratch worktree and the whole test suite passes with it."""
import sys, os, json, shutil, subprocess
def sh(cmd, cwd=None):
    p = subprocess.run(cmd, shell=True, cwd=cwd, stdout=subprocess.PIPE, stderr=subprocess.STDOUT, text=True)
    return p.returncode, p.stdout
TAG = os.environ.get("RF_TAG", "rf")
for pid in sys.argv[1:]:
    for k in (1, 2, 3):
        src = "/tmp/wt/%s%s_out/refactor%d" % (pid, TAG, k)
        if not os.path.exists(src + "/patch.diff"):
            print(pid, k, "missing"); continue
        dst = "/verif/seeded/%s_%s%d" % (pid, TAG, k)
        os.makedirs(dst, exist_ok=True)
        shutil.copy(src + "/patch.diff", dst + "/patch.diff")
        if os.path.exists(src + "/notes.md"):
            shutil.copy(src + "/notes.md", dst + "/notes.md")
        wt = "/tmp/wt/%s%s" % (pid, TAG)
        sh("git checkout -q -- . && git clean -fdq -e target -e Cargo.lock", cwd=wt)
        rc, out = sh("git apply %s/patch.diff" % dst, cwd=wt)
        ok_apply = rc == 0
        rc, out = sh("CARGO_NET_OFFLINE=true cargo test --workspace --no-fail-fast --offline 2>&1 | grep -E '^test result|FAILED|^error' ", cwd=wt) if ok_apply else (1, "")
        passed = ok_apply and "FAILED" not in out and "error" not in out and "test result: ok" in out
        sh("git checkout -q -- .", cwd=wt)
        notes = open(dst + "/notes.md").read() if os.path.exists(dst + "/notes.md") else ""
        meta = {"property": pid, "kind": "behaviour-preserving refactor (the property must still hold; a VIOLATION line would be a false alarm)",
                "needs_to_manifest": [notes.strip().splitlines()[0] if notes.strip() else ""],
                "confirmed": {"patch_applies": ok_apply, "test_suite_passes_with_it": passed, "how": "git apply in a scratch worktree; cargo test --workspace --no-fail-fast --offline"}}
        json.dump(meta, open(dst + "/meta.json", "w"), indent=1)
        print(pid, k, "applies" if ok_apply else "NO-APPLY", "suite-ok" if passed else "SUITE-FAIL", flush=True)
