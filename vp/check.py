#!/usr/bin/env python3
"""Driver: ./check <ID> [--tier quick|thorough] [--replay path] [--only substr] [--keep]
exit 0 = every obligation discharged within its bounds; 1 = replay-confirmed violation;
2 = inconclusive (timeout, memory cap, solver error, unsupported construct, non-reproducing model)."""
import sys, os, json, time, argparse, importlib, shutil, subprocess, re, traceback

HERE = os.path.dirname(os.path.abspath(__file__))
VERIF = os.path.dirname(HERE)
sys.path.insert(0, VERIF)
from vp import kani  # noqa: E402

KF_PATH = os.path.join(VERIF, "known_findings.json")


def load_known():
    if not os.path.exists(KF_PATH):
        return []
    return json.load(open(KF_PATH)).get("findings", [])


def match_known(prop, role, failed_descs, known):
    """A listed finding is identified by (property, role of the obligation, pattern of the failing assertion)."""
    out = []
    rest = list(failed_descs)
    for k in known:
        if k["property"] != prop or k.get("role") != role:
            continue
        pat = re.compile(k.get("check_pattern", ".*"))
        hit = [d for d in rest if pat.search(d)]
        if hit:
            out.append(k)
            rest = [d for d in rest if d not in hit]
    return out, rest


def native_replay(pool, ob, test_text, prop):
    """Append Kani's concrete-playback unit test to a scratch copy of the harness crate and run it natively
    (dev profile as Kani models it, then with release-like codegen settings). Returns (reproduced_dev, reproduced_rel, path)."""
    rdir = os.path.join(VERIF, "replays", prop)
    os.makedirs(rdir, exist_ok=True)
    hname = ob.harness.replace("::", ".")
    rpath = os.path.join(rdir, hname + ".rs")
    with open(rpath, "w") as f:
        f.write("// replay for property %s, harness %s (group %s)\n// features=%s cfgs=%s dbg=%s\n" % (
            prop, ob.harness, ob.group, ob.features, ob.cfgs, ob.dbg))
        f.write("// run: ./check %s --replay %s\n" % (prop, os.path.relpath(rpath, VERIF)))
        f.write(test_text)
    ok_dev, ok_rel = run_replay_file(rpath, prop)
    return ok_dev, ok_rel, rpath


def native_probe(ob, prop, goals):
    """Replay for an existential obligation (solver: goal unreachable for EVERY input): a native sampling probe
    against the real crate that must fail to reach the goal as well."""
    rdir = os.path.join(VERIF, "replays", prop)
    os.makedirs(rdir, exist_ok=True)
    rpath = os.path.join(rdir, ob.harness.replace("::", ".") + ".probe")
    with open(rpath, "w") as f:
        f.write("native-probe group=%s test=%s::%s\n" % (ob.group, ob.native[0], ob.native[1]))
        f.write("# harness %s: goals the solver shows unreachable for every input:\n" % ob.harness)
        for g in goals:
            f.write("#   " + g + "\n")
        f.write("# run: ./check %s --replay %s\n" % (prop, os.path.relpath(rpath, VERIF)))
    ok = run_probe_file(rpath, prop)
    return ok, ok, rpath


def run_probe_file(rpath, prop):
    m = re.search(r"native-probe group=(\S+) test=(\S+)::(\S+)", open(rpath).read())
    group, tfile, tname = m.groups()
    env = dict(os.environ)
    env["CARGO_NET_OFFLINE"] = "true"
    tdir = os.path.join(kani.BUILD, prop, "native_" + group)
    p = subprocess.run(["cargo", "test", "--release", "--offline", "--target-dir", tdir, "--test", tfile, tname, "--", "--exact"],
                       cwd=kani.crate_dir(group), env=env, stdout=subprocess.PIPE, stderr=subprocess.STDOUT, text=True)
    sys.stdout.write("".join(l + "\n" for l in p.stdout.splitlines() if "panicked" in l or "reached" in l or "test result" in l))
    if "test result: FAILED" in p.stdout:
        return True
    if "test result: ok. 1 passed" in p.stdout:
        return False
    return None


def run_replay_file(rpath, prop):
    text = open(rpath).read()
    if text.startswith("native-probe"):
        r = run_probe_file(rpath, prop)
        return r, r
    m = re.search(r"harness (\S+) \(group (\S+)\)\n// features=(.*) cfgs=(.*) dbg=(\w+)", text)
    harness, group = m.group(1), m.group(2)
    features = eval(m.group(3)); cfgs = eval(m.group(4)); dbg = m.group(5) == "True"
    ob = kani.Ob(group, harness, features=features, cfgs=cfgs, dbg=dbg)
    scratch = os.path.join(kani.BUILD, prop, "replay_" + harness.replace("::", "."))
    shutil.rmtree(scratch, ignore_errors=True)
    os.makedirs(os.path.dirname(scratch), exist_ok=True)
    shutil.copytree(kani.crate_dir(group), scratch, ignore=shutil.ignore_patterns("target"))
    mod = harness.split("::")[:-1]
    src = os.path.join(scratch, "src", *mod) + ".rs" if mod else os.path.join(scratch, "src", "lib.rs")
    if not os.path.exists(src):
        src = os.path.join(scratch, "src", *mod, "mod.rs")
    body = text.split("\n", 3)[3]
    inline = []
    while not os.path.exists(src) and len(mod) > 1:
        # harness in an inline (e.g. macro-generated) module: append to the file of the nearest enclosing module and
        # reach the harness through a glob import (harness fns in inline modules are pub(crate) for this purpose)
        inline.insert(0, mod[-1]); mod = mod[:-1]
        src = os.path.join(scratch, "src", *mod) + ".rs"
    if inline:
        body = "mod vp_replay_%s {\n#[allow(unused_imports)] use super::%s::*;\n%s\n}\n" % ("_".join(inline), "::".join(inline), body)
    with open(src, "a") as f:
        f.write("\n" + body + "\n")
    tname = re.search(r"fn (kani_concrete_playback_\w+)", body).group(1)
    outs = []
    for rel in (False, True):
        env = kani._env_for(ob)
        if rel:
            env.update({"CARGO_PROFILE_DEV_OPT_LEVEL": "3", "CARGO_PROFILE_DEV_DEBUG_ASSERTIONS": "false",
                        "CARGO_PROFILE_DEV_OVERFLOW_CHECKS": "false", "CARGO_PROFILE_TEST_OPT_LEVEL": "3",
                        "CARGO_PROFILE_TEST_DEBUG_ASSERTIONS": "false", "CARGO_PROFILE_TEST_OVERFLOW_CHECKS": "false"})
        cmd = ["cargo", "kani", "playback", "-Z", "concrete-playback"]
        if ob.features:
            cmd += ["--features", ",".join(ob.features)]
        cmd += ["--", tname]
        p = subprocess.run(cmd, cwd=scratch, env=env, stdout=subprocess.PIPE, stderr=subprocess.STDOUT, text=True)
        failed = "test result: FAILED" in p.stdout and tname in p.stdout
        passed = "test result: ok. 1 passed" in p.stdout
        outs.append(True if failed else (False if passed else None))
    shutil.rmtree(scratch, ignore_errors=True)
    return outs[0], outs[1]


def write_evidence(prop, tier, seed, meta, records, wall, violations, inconclusive, known_hits):
    os.makedirs(os.path.join(VERIF, "evidence"), exist_ok=True)
    evals = sum(r.get("queries", 0) for r in records)
    nontriv = len({r["name"] for r in records if r["ok"] and r.get("queries", 0) > 0})
    samples = [{"obligation": r["name"], "engine": r.get("engine", "kani"), "bounds": r.get("bounds", ""),
                "what": r.get("desc", ""), "verdict": r["status"], "queries": r.get("queries", 0),
                "vacuity_witnesses": r.get("covers", ""), "time_s": round(r.get("time", 0), 1)} for r in records[:40]]
    ev = {
        "property_id": prop, "tier": tier, "seed": seed, "level": "model_checking",
        "coverage": {
            "evaluations": max(evals, 1), "distinct_nontrivial": nontriv,
            "rule": "evaluations = solver-decided checks (CBMC properties incl. unwinding assertions / SMT queries) summed over obligations; "
                    "distinct_nontrivial = distinct obligations that were decided with their expected verdict, each with >=1 decided check and all "
                    "vacuity witnesses (kani::cover!/sat twins) satisfied; every obligation ranges over ALL values of its symbolic inputs within the stated bounds",
            "samples": samples,
            "exhaustive": False,
            "obligations": len(records), "discharged": sum(1 for r in records if r["ok"]),
            "functions_encoded": meta.get("functions_encoded", []),
            "bounds": meta.get("bounds", {}),
            "outside_claim": meta.get("outside_claim", []),
            "stubs_and_assumes": meta.get("stubs_and_assumes", []),
            "solver_time_s": round(sum(r.get("solver_time", 0) for r in records), 1),
            "cpu_time_s": round(sum(r.get("time", 0) for r in records), 1),
            "inconclusive": inconclusive,
            "known_findings_hit": known_hits,
            "expected_fail_twins": [r["name"] for r in records if r.get("expect") == "fail"],
            "all_obligations": [{"name": r["name"], "verdict": r["status"], "queries": r.get("queries", 0),
                                 "time_s": round(r.get("time", 0), 1)} for r in records],
            "engines": sorted({r.get("engine", "kani") for r in records}),
            "traces_validated_against_impl": sum(r.get("queries", 0) for r in records if r["name"] in ("translator-validation", "model-validation") and r["ok"]),
            "replays_of_this_run": [r["replay"] for r in records if r.get("replay")],
        },
        "assumptions": meta.get("assumptions", []),
        "wall_s": round(wall, 1),
        "violations": violations,
    }
    for k in ("skeletons_enumerated", "decimal_lemmas", "functions_encoded_this_run", "std_models_used"):
        if k in meta:
            ev["coverage"][k] = meta[k]
    with open(os.path.join(VERIF, "evidence", prop + ".json"), "w") as f:
        json.dump(ev, f, indent=1)


def main():
    ap = argparse.ArgumentParser()
    ap.add_argument("prop")
    ap.add_argument("--tier", default=os.environ.get("VERIF_TIER", "quick"))
    ap.add_argument("--replay")
    ap.add_argument("--only", default=None, help="substring filter on obligation names (debugging; evidence is not written)")
    ap.add_argument("--keep", action="store_true")
    a = ap.parse_args()
    prop = a.prop.upper()
    seed = int(os.environ.get("VERIF_SEED", "0") or 0)
    mod = importlib.import_module("vp.props." + prop.lower())

    if a.replay:
        path = a.replay if os.path.isabs(a.replay) else os.path.join(VERIF, a.replay)
        if hasattr(mod, "replay"):
            sys.exit(mod.replay(path))
        d, r = run_replay_file(path, prop)
        print("replay dev-profile: %s; release-like: %s" % (
            "REPRODUCED" if d else "not reproduced", "REPRODUCED" if r else "not reproduced"))
        sys.exit(1 if (d or r) else 0)

    t0 = time.time()
    known = load_known()
    records, viol_lines, known_lines, inconclusive = [], [], [], []
    meta = getattr(mod, "META", {})
    # ---- Kani obligations
    obs = mod.obligations(a.tier, seed) if hasattr(mod, "obligations") else []
    if a.only:
        obs = [o for o in obs if a.only in o.harness]
    pool = kani.Pool(prop)
    if hasattr(mod, "generate"):
        mod.generate(a.tier, seed)
    results = pool.run_all(obs) if obs else []
    for r in results:
        ob = r.ob
        rec = {"name": ob.harness, "engine": "kani", "status": r.status, "ok": r.ok(), "queries": r.checks, "desc": ob.desc,
               "bounds": ob.bounds, "time": r.time, "solver_time": r.solver_time, "expect": ob.expect,
               "covers": "%d/%d" % (r.covers_sat, r.covers_total)}
        records.append(rec)
        if r.ok():
            continue
        if ob.expect == "fail":
            inconclusive.append({"obligation": ob.harness, "reason": "deliberately false twin was not refuted (%s): harness vacuous" % r.status})
            continue
        if r.status == "FAIL":
            real = [f for f in r.failed if not f.get("cover")]
            descs = [f["desc"] for f in real]
            if ob.exists and not [f for f in real if "cover " not in f["desc"]]:
                d, rl, rpath = native_probe(ob, prop, descs)
                test = None
            else:
                test = pool.playback(ob)
                d = rl = rpath = None
            if ob.exists and rpath:
                pass
            elif not test:
                inconclusive.append({"obligation": ob.harness, "reason": "failed but no concrete playback produced", "failed": descs})
                continue
            if rpath is None:
                d, rl, rpath = native_replay(pool, ob, test, prop)
            rec["replay"] = {"path": os.path.relpath(rpath, VERIF), "dev": d, "release_like": rl}
            if not (d or rl):
                inconclusive.append({"obligation": ob.harness, "reason": "counterexample does not reproduce natively (encoding disagreement)", "failed": descs})
                continue
            hits, rest = match_known(prop, ob.role or ob.harness, descs, known)
            for k in hits:
                known_lines.append("KNOWN-FINDING: property=%s %s" % (prop, k["what"]))
            if rest or not hits:
                viol_lines.append("VIOLATION property=%s replay=%s" % (prop, os.path.relpath(rpath, VERIF)))
                rec["violation"] = rest or descs
        elif r.status == "VACUOUS":
            inconclusive.append({"obligation": ob.harness, "reason": "vacuity witness not satisfied: " + r.note,
                                 "failed": [f["desc"] for f in r.failed]})
        else:
            inconclusive.append({"obligation": ob.harness, "reason": r.status + ": " + r.note})
    # ---- python engines (mirsym / x87sym / smt)
    if hasattr(mod, "run_engine") and not (a.only and a.only.startswith("kani:")):
        try:
            er = mod.run_engine(a.tier, seed, known, a.only)
        except Exception as e:  # fail closed
            traceback.print_exc()
            if os.environ.get("VERIF_TRACEBACK"):
                import traceback as _tb; _tb.print_exc()
            er = {"records": [], "violations": [], "known": [], "inconclusive": [{"obligation": "engine", "reason": "engine aborted: %r" % (e,)}]}
        records += er["records"]
        viol_lines += er["violations"]
        known_lines += er["known"]
        inconclusive += er["inconclusive"]
    wall = time.time() - t0
    for l in sorted(set(known_lines)):
        print(l)
    for l in viol_lines:
        print(l)
    for inc in inconclusive:
        print("INCONCLUSIVE property=%s obligation=%s reason=%s" % (prop, inc["obligation"], inc["reason"]))
    if not a.only and not os.environ.get("VERIF_NO_EVIDENCE"):
        write_evidence(prop, a.tier, seed, meta, records, wall, len(viol_lines), inconclusive, sorted(set(known_lines)))
    if not a.keep:
        pool.cleanup()
    n_ok = sum(1 for r in records if r["ok"])
    print("%s tier=%s obligations=%d discharged=%d violations=%d inconclusive=%d wall=%.0fs" % (
        prop, a.tier, len(records), n_ok, len(viol_lines), len(inconclusive), wall))
    if viol_lines:
        sys.exit(1)
    if inconclusive:
        sys.exit(2)
    sys.exit(0)


if __name__ == "__main__":
    main()
