#!/usr/bin/env python3
"""store breaking changes produced by sub-agents: vp/mutstore.py <round tag e.g. r3> <PROP:crate> ...  (reads /tmp/wt/<PROP><tag>_out/mutant<k>/)"""
import sys, os, json, shutil
sys.path.insert(0, os.path.dirname(os.path.abspath(__file__)))
import seedtest
tag = sys.argv[1]
for spec in sys.argv[2:]:
    pid, crate = spec.split(":")
    for k in (1, 2):
        src = "/tmp/wt/%s%s_out/mutant%d" % (pid, tag, k)
        if not os.path.exists(src + "/patch.diff"):
            print(pid, k, "missing"); continue
        dst = "/verif/seeded/%s_%sm%d" % (pid, tag, k)
        os.makedirs(dst, exist_ok=True)
        for f in ("patch.diff", "demo.rs", "notes.md"):
            if os.path.exists(src + "/" + f):
                shutil.copy(src + "/" + f, dst + "/" + f)
        res = seedtest.confirm("/tmp/wt/%s%s" % (pid, tag), dst, crate)
        notes = open(dst + "/notes.md").read().strip().splitlines() if os.path.exists(dst + "/notes.md") else []
        meta = {"property": pid, "source": "independent sub-agent (round %s), given only the property text and a scratch worktree" % tag, "crate": crate,
                "needs_to_manifest": notes[:6],
                "confirmed_by_me": dict(how="vp/seedtest.py confirm (scratch worktree): demo placed at rlib/%s/tests/seed_demo.rs; cargo test --offline -p rlib_%s --test seed_demo; cargo test --workspace --offline" % (crate, crate), **res)}
        json.dump(meta, open(dst + "/meta.json", "w"), indent=1)
        print(pid, k, res, flush=True)
