#!/bin/sh
# debugging aid: dump the MIR of one crate with a stored change applied: vp/wtmir.sh <seeded id> <crate dir e.g. rlib/sieve> -> /tmp/wt/<id>.mir
set -e
id=$1; crate=$2; wt=/tmp/wt/mir_$id
git -C /repo worktree add -q --detach $wt HEAD
git -C $wt apply /verif/seeded/$id/patch.diff
(cd $wt/$crate && CARGO_TARGET_DIR=$wt/tgt cargo +nightly rustc --offline --lib -- -Zunpretty=mir -C debug-assertions=off -C overflow-checks=on 2>/dev/null > /tmp/wt/$id.mir) || true
git -C /repo worktree remove --force $wt; rm -rf $wt
wc -l /tmp/wt/$id.mir
