#!/usr/bin/env python3
"""Confirm a seeded change and run a check against it.
  vp/seedtest.py confirm <worktree> <mutantdir> <crate> [demo-test-name]   -> demo fails with / passes without, suite passes with
  vp/seedtest.py check <PROP> <patch.diff> [--tier quick]                   -> apply to /repo, run ./check, revert"""
import sys, os, subprocess, shutil, json, time

def sh(cmd, cwd=None, env=None):
    e = dict(os.environ); e["CARGO_NET_OFFLINE"] = "true"
    if env: e.update(env)
    p = subprocess.run(cmd, cwd=cwd, env=e, shell=isinstance(cmd, str), stdout=subprocess.PIPE, stderr=subprocess.STDOUT, text=True)
    return p.returncode, p.stdout

def confirm(wt, mdir, crate, suite=True):
    patch = os.path.join(mdir, "patch.diff")
    demo = os.path.join(mdir, "demo.rs")
    res = {}
    sh("git checkout -q -- . && git clean -fdq -e target", wt)
    tdir = os.path.join(wt, "rlib", crate, "tests")
    os.makedirs(tdir, exist_ok=True)
    dst = os.path.join(tdir, "seed_demo.rs")
    shutil.copy(demo, dst)
    rc, out = sh("cargo test --offline -p rlib_%s --test seed_demo 2>&1 | tail -15" % crate, wt)
    res["demo_without"] = "test result: ok" in out and "FAILED" not in out
    rc, out2 = sh(["git", "apply", patch], wt)
    res["applies"] = rc == 0
    rc, out = sh("cargo test --offline -p rlib_%s --test seed_demo 2>&1 | tail -15" % crate, wt)
    res["demo_with_fails"] = "FAILED" in out or "panicked" in out or "error" in out
    os.remove(dst)
    if suite:
        rc, out = sh("cargo test --workspace --offline --no-fail-fast 2>&1 | grep -E 'test result|FAILED|error(\\[|:)' | sort | uniq -c", wt)
        res["suite_passes_with"] = "FAILED" not in out and "error" not in out and "test result: ok" in out
    sh("git checkout -q -- . && git clean -fdq -e target", wt)
    return res

def check(prop, patch, tier="quick"):
    rc, out = sh(["git", "-C", "/repo", "status", "--porcelain"])
    if out.strip():
        print("REFUSING: /repo is dirty:", out); return None
    rc, out = sh(["git", "-C", "/repo", "apply", patch])
    if rc != 0:
        print("patch does not apply:", out); return None
    t0 = time.time()
    try:
        rc, out = sh(["./check", prop, "--tier", tier], "/verif", {"VERIF_NO_EVIDENCE": "1"})
    finally:
        sh(["git", "-C", "/repo", "checkout", "--", "."])
        sh(["git", "-C", "/repo", "clean", "-fdq", "-e", "target"])
    lines = [l for l in out.splitlines() if l.startswith(("VIOLATION", "INCONCLUSIVE", "KNOWN", prop))]
    return {"exit": rc, "wall_s": round(time.time() - t0), "lines": lines[:12]}

def check_wt(prop, patch, tier="quick", wt=None):
    """parallel variant: apply the change in a scratch worktree of /repo and point the check at it (VERIF_REPO)"""
    import hashlib
    wt = wt or "/tmp/wt/seed_" + hashlib.sha1(patch.encode()).hexdigest()[:8]
    sh(["git", "-C", "/repo", "worktree", "remove", "--force", wt])
    rc, out = sh(["git", "-C", "/repo", "worktree", "add", "-q", "--detach", wt, "HEAD"])
    try:
        rc, out = sh(["git", "-C", wt, "apply", patch])
        if rc != 0:
            return {"error": "patch does not apply: " + out}
        t0 = time.time()
        rc, out = sh(["./check", prop, "--tier", tier], "/verif", {"VERIF_NO_EVIDENCE": "1", "VERIF_REPO": wt, "VERIF_JOBS": os.environ.get("SEED_JOBS", "8")})
        lines = [l for l in out.splitlines() if l.startswith(("VIOLATION", "INCONCLUSIVE", "KNOWN", prop))]
        return {"exit": rc, "wall_s": round(time.time() - t0), "lines": lines[:12], "how": "scratch worktree + VERIF_REPO"}
    finally:
        sh(["git", "-C", "/repo", "worktree", "remove", "--force", wt])
        import glob, shutil
        for d in glob.glob("/verif/.build_alt_*"):
            pass


if __name__ == "__main__":
    if sys.argv[1] == "checkwt":
        tier = sys.argv[5] if len(sys.argv) > 5 else "quick"
        r = check_wt(sys.argv[2], sys.argv[3], tier)
        print(json.dumps(r, indent=1))
        if len(sys.argv) > 4 and sys.argv[4] != "-":
            json.dump(r, open(sys.argv[4], "w"), indent=1)
        sys.exit(0)
    if sys.argv[1] == "confirm":
        print(json.dumps(confirm(sys.argv[2], sys.argv[3], sys.argv[4])))
    else:
        tier = sys.argv[5] if len(sys.argv) > 5 else "quick"
        print(json.dumps(check(sys.argv[2], sys.argv[3], tier), indent=1))
