#!/usr/bin/env python3
"""run checks against all (or the listed) seeded changes in parallel scratch worktrees: vp/seedbatch.py [--tier quick] [ids...]"""
import sys, os, json, glob
from concurrent.futures import ThreadPoolExecutor
sys.path.insert(0, os.path.dirname(os.path.abspath(__file__)))
import seedtest
args = sys.argv[1:]
tier = "quick"
if args and args[0] == "--tier":
    tier = args[1]; args = args[2:]
ids = args or sorted(os.path.basename(d) for d in glob.glob("/verif/seeded/C*m[0-9]"))
os.environ.setdefault("SEED_JOBS", "6")
def one(i):
    d = "/verif/seeded/" + i
    meta = json.load(open(d + "/meta.json"))
    prop = meta["property"]
    if not os.path.exists("/verif/vp/props/%s.py" % prop.lower()):
        return i, None
    r = seedtest.check_wt(prop, d + "/patch.diff", tier)
    r["tier"] = tier
    json.dump(r, open(d + "/check_%s.json" % tier, "w"), indent=1)
    return i, r
with ThreadPoolExecutor(max_workers=int(os.environ.get("SEED_PAR", "3"))) as ex:
    for i, r in ex.map(one, ids):
        print(i, None if r is None else ("DETECTED" if r.get("exit") == 1 else "exit=%s" % r.get("exit")), (r or {}).get("wall_s"), flush=True)
