#!/usr/bin/env python3
"""writes SENSITIVITY.md from seeded/*/meta.json and seeded/*/check_*.json"""
import json, glob, os
rows = []
for d in sorted(glob.glob("/verif/seeded/C*m[0-9]") + glob.glob("/verif/seeded/C*_rf[0-9]") + glob.glob("/verif/seeded/C*_rg[0-9]")):
    meta = json.load(open(d + "/meta.json"))
    res = {}
    for t in ("quick", "thorough"):
        p = d + "/check_%s.json" % t
        if os.path.exists(p):
            r = json.load(open(p))
            if "refactor" in meta.get("kind", ""):
                res[t] = "FALSE ALARM (exit 1)" if r.get("exit") == 1 else ("pass (exit 0)" if r.get("exit") == 0 else "inconclusive (exit 2)")
            else:
                has_line = any(l.startswith("VIOLATION") for l in r.get("lines", []))
                res[t] = ("DETECTED" if has_line else "exit 1 without a VIOLATION line (replay step crashed before the round-4 repair, see DESIGN A.5)") if r.get("exit") == 1 else ("missed (exit 0)" if r.get("exit") == 0 else "inconclusive (exit 2)")
            res[t + "_lines"] = r.get("lines", [])[:2]
            res[t + "_wall"] = r.get("wall_s")
    # record in meta.json what was run against this change and what it said
    runs = []
    for t in ("quick", "thorough"):
        pth = d + "/check_%s.json" % t
        if os.path.exists(pth):
            r = json.load(open(pth))
            runs.append({"check": meta["property"], "tier": t, "command": "VERIF_REPO=<scratch worktree with the change applied> ./check %s --tier %s (vp/seedtest.py checkwt)" % (meta["property"], t),
                         "exit": r.get("exit"), "verdict": res.get(t), "lines": r.get("lines", [])[:3], "wall_s": r.get("wall_s"), "history": r.get("history")})
    if runs:
        meta["checks_run"] = runs
        json.dump(meta, open(d + "/meta.json", "w"), indent=1)
    what = ("[behaviour-preserving] " if "refactor" in meta.get("kind", "") else "") + " ".join(meta["needs_to_manifest"][:2])[:200].replace("|", "/").replace("\n", " ")
    rows.append((os.path.basename(d), meta["property"], what, res, meta.get("note", ""), meta.get("checks_run")))
L = ["# SENSITIVITY — seeded changes vs. checks", "",
     "Each seeded change was written by an independent sub-agent that saw only the text of one property and a scratch worktree of /repo; it compiles, passes the",
     "whole existing test suite, and comes with a demonstration that fails with it and passes without it (confirmed by `vp/seedtest.py confirm`, see meta.json).",
     "Checks were run against each change in a scratch worktree (`VERIF_REPO`, `vp/seedtest.py checkwt`), i.e. the same code path as the registered command with the",
     "path dependencies redirected; spot checks with `git -C /repo apply` gave the same verdicts.", "",
     "| change | property | what it needs | quick tier | thorough tier | first line reported |", "|---|---|---|---|---|---|"]
for name, prop, what, res, note, cr in rows:
    rem = note or ""
    ls = (res.get("quick_lines") or res.get("thorough_lines") or [])
    if ls:
        rem = ls[0][:180]
    L.append("| %s | %s | %s | %s | %s | %s |" % (name, prop, what, res.get("quick", "-"), res.get("thorough", "-"), rem.replace("|", "/")))
L += ["", "Verdicts: DETECTED = exit 1 with a VIOLATION line whose counterexample reproduced on the changed code; inconclusive = exit 2 (the change uses a construct",
      "outside the encoded subset, or the bound no longer covers the code: fail-closed, never reported as a pass); missed = exit 0.",
      "Rows marked [behaviour-preserving] are refactors under which the property still holds: the wanted verdict is pass (exit 0); exit 1 there would be a false alarm.", ""]
open("/verif/SENSITIVITY.md", "w").write("\n".join(L) + "\n")
det = sum(1 for r in rows if r[3].get("quick") == "DETECTED" or r[3].get("thorough") == "DETECTED")
rf = [r for r in rows if "_rf" in r[0] or "_rg" in r[0]]
print(len(rows) - len(rf), "breaking changes;", det, "detected;", len(rf), "behaviour-preserving refactors:", sum(1 for r in rf if r[3].get("quick") == "pass (exit 0)"), "pass,",
      sum(1 for r in rf if "inconclusive" in r[3].get("quick", "")), "inconclusive,", sum(1 for r in rf if "FALSE" in r[3].get("quick", "")), "false alarms")
