// replay for property C14, harness rand::c14_reach_i64 (group num)
// features=[] cfgs=[] dbg=True
// run: ./check C14 --replay replays/C14/rand.c14_reach_i64.rs
/// Test generated for harness `rand::c14_reach_i64` 
///
/// Check for `cover`: "cover condition: incl && v == e && s == < i64 > :: MIN"

#[test]
fn kani_concrete_playback_c14_reach_i64_2485379869250411871() {
    let concrete_vals: Vec<Vec<u8>> = vec![
        // -9223372036854775808
        vec![0, 0, 0, 0, 0, 0, 0, 128],
        // -9223372036854775808
        vec![0, 0, 0, 0, 0, 0, 0, 128],
        // -9223372036854775808
        vec![0, 0, 0, 0, 0, 0, 0, 128],
        // 1
        vec![1],
    ];
    kani::concrete_playback_run(concrete_vals, c14_reach_i64);
}
