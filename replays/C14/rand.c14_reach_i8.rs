// replay for property C14, harness rand::c14_reach_i8 (group num)
// features=[] cfgs=[] dbg=True
// run: ./check C14 --replay replays/C14/rand.c14_reach_i8.rs
/// Test generated for harness `rand::c14_reach_i8` 
///
/// Check for `cover`: "cover condition: incl && v == e && s == < i8 > :: MIN"

#[test]
fn kani_concrete_playback_c14_reach_i8_14432087302263263397() {
    let concrete_vals: Vec<Vec<u8>> = vec![
        // -128
        vec![128],
        // 127
        vec![127],
        // 127
        vec![127],
        // 1
        vec![1],
    ];
    kani::concrete_playback_run(concrete_vals, c14_reach_i8);
}
