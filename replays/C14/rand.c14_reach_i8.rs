// replay for property C14, harness rand::c14_reach_i8 (group num)
// features=[] cfgs=[] dbg=True
// run: ./check C14 --replay replays/C14/rand.c14_reach_i8.rs
/// Test generated for harness `rand::c14_reach_i8` 
///
/// Check for `assertion`: ""every value of the range is produced by some raw output""

#[test]
fn kani_concrete_playback_c14_reach_i8_2073784732692064350() {
    let concrete_vals: Vec<Vec<u8>> = vec![
        // -128
        vec![128],
        // 127
        vec![127],
        // -128
        vec![128],
        // 1
        vec![1],
    ];
    kani::concrete_playback_run(concrete_vals, c14_reach_i8);
}
