// replay for property C14, harness rand::c14_f64_range (group num)
// features=[] cfgs=[] dbg=True
// run: ./check C14 --replay replays/C14/rand.c14_f64_range.rs
/// Test generated for harness `rand::c14_f64_range` 
///
/// Check for `assertion`: ""float draw satisfies start <= x < end""

#[test]
fn kani_concrete_playback_c14_f64_range_2423067143717988821() {
    let concrete_vals: Vec<Vec<u8>> = vec![
        // 3.061802e+203
        vec![0, 0, 0, 0, 0, 64, 47, 106],
        // 3.083235e+203
        vec![0, 0, 0, 0, 0, 120, 47, 106],
        // 18446744073709428735ul
        vec![255, 31, 254, 255, 255, 255, 255, 255],
    ];
    kani::concrete_playback_run(concrete_vals, c14_f64_range);
}
