// replay for property C14, harness rand::c14_f64_range (group num)
// features=[] cfgs=[] dbg=True
// run: ./check C14 --replay replays/C14/rand.c14_f64_range.rs
/// Test generated for harness `rand::c14_f64_range` 
///
/// Check for `assertion`: ""float draw satisfies start <= x < end""

#[test]
fn kani_concrete_playback_c14_f64_range_2518739152198429720() {
    let concrete_vals: Vec<Vec<u8>> = vec![
        // 6.567259e-288
        vec![255, 255, 255, 255, 255, 255, 79, 4],
        // 6.567259e-288
        vec![0, 0, 0, 0, 0, 0, 80, 4],
        // 18446744073709551615ul
        vec![255, 255, 255, 255, 255, 255, 255, 255],
    ];
    kani::concrete_playback_run(concrete_vals, c14_f64_range);
}
