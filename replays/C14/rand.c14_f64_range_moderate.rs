// replay for property C14, harness rand::c14_f64_range_moderate (group num)
// features=[] cfgs=[] dbg=True
// run: ./check C14 --replay replays/C14/rand.c14_f64_range_moderate.rs
/// Test generated for harness `rand::c14_f64_range_moderate` 
///
/// Check for `assertion`: ""float draw satisfies start <= x < end""

#[test]
fn kani_concrete_playback_c14_f64_range_moderate_6699874719628592291() {
    let concrete_vals: Vec<Vec<u8>> = vec![
        // -5.982592e-8
        vec![0, 0, 0, 192, 52, 15, 112, 190],
        // 256
        vec![150, 225, 223, 255, 255, 255, 111, 64],
        // 18446744073709551615ul
        vec![255, 255, 255, 255, 255, 255, 255, 255],
    ];
    kani::concrete_playback_run(concrete_vals, c14_f64_range_moderate);
}
