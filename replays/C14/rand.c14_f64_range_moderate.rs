// replay for property C14, harness rand::c14_f64_range_moderate (group num)
// features=[] cfgs=[] dbg=True
// run: ./check C14 --replay replays/C14/rand.c14_f64_range_moderate.rs
/// Test generated for harness `rand::c14_f64_range_moderate` 
///
/// Check for `assertion`: ""float draw satisfies start <= x < end""

#[test]
fn kani_concrete_playback_c14_f64_range_moderate_9786399939476842362() {
    let concrete_vals: Vec<Vec<u8>> = vec![
        // -2
        vec![255, 255, 255, 255, 255, 255, 255, 191],
        // 2
        vec![255, 255, 255, 255, 255, 255, 255, 63],
        // 18446744073709551615ul
        vec![255, 255, 255, 255, 255, 255, 255, 255],
    ];
    kani::concrete_playback_run(concrete_vals, c14_f64_range_moderate);
}
