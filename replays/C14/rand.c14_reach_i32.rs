// replay for property C14, harness rand::c14_reach_i32 (group num)
// features=[] cfgs=[] dbg=True
// run: ./check C14 --replay replays/C14/rand.c14_reach_i32.rs
/// Test generated for harness `rand::c14_reach_i32` 
///
/// Check for `assertion`: ""every value of the range is produced by some raw output""

#[test]
fn kani_concrete_playback_c14_reach_i32_17069989019218705646() {
    let concrete_vals: Vec<Vec<u8>> = vec![
        // -2147483648
        vec![0, 0, 0, 128],
        // 2147483647
        vec![255, 255, 255, 127],
        // -2147483648
        vec![0, 0, 0, 128],
        // 1
        vec![1],
    ];
    kani::concrete_playback_run(concrete_vals, c14_reach_i32);
}
