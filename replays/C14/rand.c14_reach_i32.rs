// replay for property C14, harness rand::c14_reach_i32 (group num)
// features=[] cfgs=[] dbg=True
// run: ./check C14 --replay replays/C14/rand.c14_reach_i32.rs
/// Test generated for harness `rand::c14_reach_i32` 
///
/// Check for `cover`: "cover condition: incl && v == e && s == < i32 > :: MIN"

#[test]
fn kani_concrete_playback_c14_reach_i32_15086436577846834444() {
    let concrete_vals: Vec<Vec<u8>> = vec![
        // -2147483648
        vec![0, 0, 0, 128],
        // 2147483647
        vec![255, 255, 255, 127],
        // 2147483647
        vec![255, 255, 255, 127],
        // 1
        vec![1],
    ];
    kani::concrete_playback_run(concrete_vals, c14_reach_i32);
}
