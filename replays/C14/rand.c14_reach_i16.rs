// replay for property C14, harness rand::c14_reach_i16 (group num)
// features=[] cfgs=[] dbg=True
// run: ./check C14 --replay replays/C14/rand.c14_reach_i16.rs
/// Test generated for harness `rand::c14_reach_i16` 
///
/// Check for `assertion`: ""every value of the range is produced by some raw output""

#[test]
fn kani_concrete_playback_c14_reach_i16_15949718903386643108() {
    let concrete_vals: Vec<Vec<u8>> = vec![
        // -32768
        vec![0, 128],
        // 32767
        vec![255, 127],
        // -32768
        vec![0, 128],
        // 1
        vec![1],
    ];
    kani::concrete_playback_run(concrete_vals, c14_reach_i16);
}
