// replay for property C14, harness rand::c14_reach_i16 (group num)
// features=[] cfgs=[] dbg=True
// run: ./check C14 --replay replays/C14/rand.c14_reach_i16.rs
/// Test generated for harness `rand::c14_reach_i16` 
///
/// Check for `cover`: "cover condition: incl && v == e && s == < i16 > :: MIN"

#[test]
fn kani_concrete_playback_c14_reach_i16_10826813904447857468() {
    let concrete_vals: Vec<Vec<u8>> = vec![
        // -32768
        vec![0, 128],
        // 1063
        vec![39, 4],
        // 1063
        vec![39, 4],
        // 1
        vec![1],
    ];
    kani::concrete_playback_run(concrete_vals, c14_reach_i16);
}
