// replay for property C19, harness tensor::c19_oob_d1 (group small)
// features=[] cfgs=[] dbg=True
// run: ./check C19 --replay replays/C19/tensor.c19_oob_d1.rs
/// Test generated for harness `tensor::c19_oob_d1` 
///
/// Check for `assertion`: "VERIF-REACHED: out-of-range index accepted"

#[test]
fn kani_concrete_playback_c19_oob_d1_6815597347478502109() {
    let concrete_vals: Vec<Vec<u8>> = vec![
        // 1ul
        vec![1, 0, 0, 0, 0, 0, 0, 0],
        // 0ul
        vec![0, 0, 0, 0, 0, 0, 0, 0],
        // 0ul
        vec![0, 0, 0, 0, 0, 0, 0, 0],
        // 3ul
        vec![3, 0, 0, 0, 0, 0, 0, 0],
        // 1
        vec![1],
    ];
    kani::concrete_playback_run(concrete_vals, c19_oob_d1);
}
