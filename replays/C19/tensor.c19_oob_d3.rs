// replay for property C19, harness tensor::c19_oob_d3 (group small)
// features=[] cfgs=[] dbg=True
// run: ./check C19 --replay replays/C19/tensor.c19_oob_d3.rs
/// Test generated for harness `tensor::c19_oob_d3` 
///
/// Check for `assertion`: "VERIF-REACHED: out-of-range index accepted"

#[test]
fn kani_concrete_playback_c19_oob_d3_1142924243521941513() {
    let concrete_vals: Vec<Vec<u8>> = vec![
        // 1ul
        vec![1, 0, 0, 0, 0, 0, 0, 0],
        // 4ul
        vec![4, 0, 0, 0, 0, 0, 0, 0],
        // 4ul
        vec![4, 0, 0, 0, 0, 0, 0, 0],
        // 0ul
        vec![0, 0, 0, 0, 0, 0, 0, 0],
        // 2ul
        vec![2, 0, 0, 0, 0, 0, 0, 0],
        // 0ul
        vec![0, 0, 0, 0, 0, 0, 0, 0],
        // 0ul
        vec![0, 0, 0, 0, 0, 0, 0, 0],
        // 1ul
        vec![1, 0, 0, 0, 0, 0, 0, 0],
        // 1
        vec![1],
    ];
    kani::concrete_playback_run(concrete_vals, c19_oob_d3);
}
