// replay for property C19, harness tensor::c19_ctor_reject_zero (group small)
// features=[] cfgs=[] dbg=True
// run: ./check C19 --replay replays/C19/tensor.c19_ctor_reject_zero.rs
/// Test generated for harness `tensor::c19_ctor_reject_zero` 
///
/// Check for `assertion`: "assertion failed: !dims.contains(&0)"

#[test]
fn kani_concrete_playback_c19_ctor_reject_zero_253609692015306255() {
    let concrete_vals: Vec<Vec<u8>> = vec![
        // 1ul
        vec![1, 0, 0, 0, 0, 0, 0, 0],
        // 0ul
        vec![0, 0, 0, 0, 0, 0, 0, 0],
        // 0ul
        vec![0, 0, 0, 0, 0, 0, 0, 0],
        // 0ul
        vec![0, 0, 0, 0, 0, 0, 0, 0],
        // 0
        vec![0],
    ];
    kani::concrete_playback_run(concrete_vals, c19_ctor_reject_zero);
}
