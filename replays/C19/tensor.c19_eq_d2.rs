// replay for property C19, harness tensor::c19_eq_d2 (group small)
// features=[] cfgs=[] dbg=True
// run: ./check C19 --replay replays/C19/tensor.c19_eq_d2.rs
/// Test generated for harness `tensor::c19_eq_d2` 
///
/// Check for `assertion`: ""tensor == must hold exactly when shape and elements agree""

#[test]
fn kani_concrete_playback_c19_eq_d2_14054474177673263239() {
    let concrete_vals: Vec<Vec<u8>> = vec![
        // 2ul
        vec![2, 0, 0, 0, 0, 0, 0, 0],
        // 1ul
        vec![1, 0, 0, 0, 0, 0, 0, 0],
        // 1ul
        vec![1, 0, 0, 0, 0, 0, 0, 0],
        // 2ul
        vec![2, 0, 0, 0, 0, 0, 0, 0],
        // 192
        vec![192],
        // 0
        vec![0],
        // 255
        vec![255],
        // 255
        vec![255],
        // 255
        vec![255],
        // 255
        vec![255],
        // 192
        vec![192],
        // 0
        vec![0],
        // 255
        vec![255],
        // 255
        vec![255],
        // 255
        vec![255],
        // 255
        vec![255],
    ];
    kani::concrete_playback_run(concrete_vals, c19_eq_d2);
}
