// replay for property C19, harness tensor::c19_ctor_reject_len (group small)
// features=[] cfgs=[] dbg=True
// run: ./check C19 --replay replays/C19/tensor.c19_ctor_reject_len.rs
/// Test generated for harness `tensor::c19_ctor_reject_len` 
///
/// Check for `assertion`: "VERIF-REACHED: wrong data length accepted"

#[test]
fn kani_concrete_playback_c19_ctor_reject_len_16997119064516532433() {
    let concrete_vals: Vec<Vec<u8>> = vec![
        // 2ul
        vec![2, 0, 0, 0, 0, 0, 0, 0],
        // 1ul
        vec![1, 0, 0, 0, 0, 0, 0, 0],
        // 3ul
        vec![3, 0, 0, 0, 0, 0, 0, 0],
        // 1
        vec![1],
    ];
    kani::concrete_playback_run(concrete_vals, c19_ctor_reject_len);
}
