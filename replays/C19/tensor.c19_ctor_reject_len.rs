// replay for property C19, harness tensor::c19_ctor_reject_len (group small)
// features=[] cfgs=[] dbg=True
// run: ./check C19 --replay replays/C19/tensor.c19_ctor_reject_len.rs
/// Test generated for harness `tensor::c19_ctor_reject_len` 
///
/// Check for `assertion`: "assertion failed: dims.iter().product::<usize>() == data.len()"

#[test]
fn kani_concrete_playback_c19_ctor_reject_len_6514085360282584389() {
    let concrete_vals: Vec<Vec<u8>> = vec![
        // 3ul
        vec![3, 0, 0, 0, 0, 0, 0, 0],
        // 3ul
        vec![3, 0, 0, 0, 0, 0, 0, 0],
        // 5ul
        vec![5, 0, 0, 0, 0, 0, 0, 0],
        // 0
        vec![0],
    ];
    kani::concrete_playback_run(concrete_vals, c19_ctor_reject_len);
}
