"""C12 (rendering clause): the 0/1 text produced by `Display` and `Debug` for Bitset<N> describes exactly the set.
mirsym on the MIR of rlib_bitset: `<Bitset<N> as Display/Debug>::fmt`, its closure and `Bitset::test` are executed on the
MIR with the N words SYMBOLIC; the std pieces of the pipeline (Range::map, collect, <int as ToString>::to_string,
[String]::join, format-argument plumbing, Formatter::write_fmt) are models with their documented meaning.
Anything else on the path (another formatting spec, another iterator adaptor) => Unsupported (inconclusive)."""
import re, time, z3
from .core import Program, Machine, explore, Unsupported, Panic, PathLimit, I, Arr, Vec, Ref, SliceRef, Enum, Opaque, BITS, mk_int, mk_bool, zbool
from .iomodel import install_models, as_slice, _load
from .fmtmodel import install_fmt_models


class BitsetProgram(Program):
    def __init__(self, text):
        Program.__init__(self, text, 'bitset')
        install_models(self)
        self.merge_diamonds = True          # `if bit { push('1') } else { push('0') }`: one statement with an if-then-else constant
        self.merge_pure_closures = True     # per-index closures are pure: merge their branches instead of forking per bit
        for k in ('String::push', 'String::new'):
            self.models.pop(k, None)       # the fmt model's versions (chars stored as bytes) are used instead
        self.resolvers.insert(0, BitsetProgram._resolve)
        self.const_resolvers.insert(0, BitsetProgram._const)
        M = self.model

        def closure_fn(loc):
            c = [f for f in self.fns if '{closure#' in f.name and ('{closure@%s}' % loc) in f.header]
            if len(c) != 1:
                raise Unsupported('closure %s not found in the MIR' % loc)
            return c[0]

        @M(r'^<std::ops::Range<usize> as Iterator>::map::<String, \{closure@(.*)\}>$', regex=True)
        def _(m, fr, a, mm):
            return Opaque('map', [a[0], a[1], mm.group(1)])

        @M(r'^<Map<std::ops::Range<usize>, \{closure@(.*)\}> as Iterator>::collect::<Vec<String>>$', regex=True)
        def _(m, fr, a, mm):
            rng, clo, loc = a[0].payload
            s, e = rng[0], rng[1]
            if s.sym() or e.sym():
                raise Unsupported('symbolic range')
            f = closure_fn(loc)
            out = Vec([])
            cell = [clo]
            for k in range(s.v, e.v):
                out.items.append(m.run(f, [Ref(cell, 0), I(k, 'usize')], fr.subst))
            return out

        # ---- iterators over the words / over index ranges
        @M(r'^<std::ops::Range<usize> as Iterator>::rev$', regex=True)
        def _(m, fr, a, mm):
            return Opaque('revrange', [a[0]])

        @M(r'^<Rev<std::ops::Range<usize>> as IntoIterator>::into_iter$', regex=True)
        def _(m, fr, a, mm):
            return a[0]

        @M(r'^<Rev<std::ops::Range<usize>> as Iterator>::next$', regex=True)
        def _(m, fr, a, mm):
            r = _load(a[0]).payload[0]
            s0, e0 = r[0], r[1]
            if s0.sym() or e0.sym():
                raise Unsupported('symbolic range')
            if s0.v < e0.v:
                r[1] = I(e0.v - 1, 'usize')
                return Enum('Some', [I(e0.v - 1, 'usize')])
            return Enum('None')

        def elem_ref(sl, k):
            return Ref(sl.arr, sl.start + k)

        @M(r"^<std::slice::Iter<'_, \w+> as IntoIterator>::into_iter$", regex=True)
        def _(m, fr, a, mm):
            return a[0]

        @M(r"^<&\[\w+; \w+\] as IntoIterator>::into_iter$", regex=True)
        def _(m, fr, a, mm):
            return Opaque('iter', [as_slice(a[0]), 0])

        @M(r"^<std::slice::Iter<'_, \w+> as Iterator>::next$", regex=True)
        def _(m, fr, a, mm):
            it = _load(a[0]).payload
            sl, pos = it[0], it[1]
            end = it[2] if len(it) > 2 else sl.n
            if pos >= end:
                return Enum('None')
            it[1] = pos + 1
            return Enum('Some', [elem_ref(sl, pos)])

        @M(r"^<std::slice::Iter<'_, \w+> as DoubleEndedIterator>::next_back$", regex=True)
        def _(m, fr, a, mm):
            it = _load(a[0]).payload
            if len(it) == 2:
                it.append(it[0].n)
            if it[1] >= it[2]:
                return Enum('None')
            it[2] -= 1
            return Enum('Some', [elem_ref(it[0], it[2])])

        @M(r"^<std::slice::Iter<'_, \w+> as Iterator>::rev$", regex=True)
        def _(m, fr, a, mm):
            return Opaque('reviter', a[0].payload)

        @M(r"^<Rev<std::slice::Iter<'_, \w+>> as IntoIterator>::into_iter$", regex=True)
        def _(m, fr, a, mm):
            return a[0]

        @M(r"^<Rev<std::slice::Iter<'_, \w+>> as Iterator>::next$", regex=True)
        def _(m, fr, a, mm):
            it = _load(a[0]).payload
            if len(it) == 2:
                it.append(it[0].n)
            if it[1] >= it[2]:
                return Enum('None')
            it[2] -= 1
            return Enum('Some', [elem_ref(it[0], it[2])])

        install_fmt_models(self)

    def _resolve(self, fr, callee):
        m = re.match(r'^Bitset::<N>::(\w+)$', callee)
        if m:
            c = [f for f in self.fns if f.name.endswith('::' + m.group(1)) and '{closure' not in f.name and not (m.group(1) == 'fmt' and 'Formatter' in f.header) and 'Bitset<N>' in f.header]
            if len(c) != 1:
                raise Unsupported('cannot locate a unique Bitset::%s (%d candidates)' % (m.group(1), len(c)))
            return c[0], fr.subst
        return None

    def _const(self, m, fr, s):
        if s == 'N' and fr is not None and 'N' in fr.subst:
            return I(int(fr.subst['N']), 'usize')
        return None

    def fmt_fns(self, source_text):
        """-> {'Display': fn, 'Debug': fn}; the dump names impls by source span, the trait is read from that source line"""
        lines = source_text.splitlines()
        out = {}
        for f in self.fns:
            if not (f.name.endswith('::fmt') and 'Formatter' in f.header):
                continue
            m = re.search(r'<impl at [^:]+:(\d+):\d+: \d+:\d+>', f.name)
            if not m:
                raise Unsupported('fmt impl without a source span: ' + f.name)
            decl = lines[int(m.group(1)) - 1]
            for tr in ('Display', 'Debug'):
                if re.search(r'\b%s\b' % tr, decl) and 'Bitset' in decl:
                    if tr in out:
                        raise Unsupported('two %s impls' % tr)
                    out[tr] = f
        if set(out) != {'Display', 'Debug'}:
            raise Unsupported('Display/Debug impls for Bitset not found (found %s)' % sorted(out))
        return out


def check_render(P, N, source_text):
    """-> list of records, one per trait"""
    out = []
    words = [z3.BitVec('w%d' % k, 64) for k in range(N)]
    for which, f in sorted(P.fmt_fns(source_text).items()):
        t0 = time.time()

        def body(m):
            bs = [Arr(N, I(0, 'u64'), {k: I(words[k], 'u64') for k in range(N)})]
            sink = []
            fm = Opaque('formatter', sink)
            r = m.run(f, [Ref([bs], 0), Ref([fm], 0)], {'N': str(N)})
            return (r, sink)
        paths = explore(P, body, max_paths=64)
        nq = 0
        rec = dict(name='%s N=%d' % (which, N), status='PASS', paths=len(paths))
        for path in paths:
            if path['status'] != 'ok':
                rec.update(status='FAIL', detail='rendering panics: ' + path['status'], pc=path['pc'])
                break
            r, sink = path['outcome']
            if not (isinstance(r, Enum) and r.variant == 'Ok'):
                rec.update(status='FAIL', detail='fmt returned %r' % (r,), pc=path['pc'])
                break
            bad = []
            if len(sink) != 64 * N:
                bad.append(z3.BoolVal(True))
            else:
                for i, ch in enumerate(sink):
                    bit = z3.Extract(i % 64, i % 64, words[i // 64])
                    want = z3.If(bit == 1, z3.BitVecVal(ord('1'), 8), z3.BitVecVal(ord('0'), 8))
                    bad.append(ch.z() != want)
            s = z3.Solver(); s.set('timeout', 120000)
            s.add(path['pc'] + [z3.Or(bad)])
            res = s.check(); nq += 1
            if res == z3.unknown:
                raise Unsupported('z3 unknown on the rendering obligation')
            if res == z3.sat:
                mdl = s.model()
                ws = [mdl.eval(w, model_completion=True).as_long() for w in words]
                text = ''.join(chr(mdl.eval(c.z(), model_completion=True).as_long()) for c in sink)
                rec.update(status='FAIL', detail='text does not describe the set', witness=dict(N=N, words=ws, which=which, model_text=text))
                break
        rec.update(time=time.time() - t0, queries=nq)
        out.append(rec)
    return out
