"""Callee resolution and std models for the MIR of rlib_io (Reader / Writer), plus the read/write environment stubs."""
import re
import z3
from .core import (Program, Unsupported, Panic, I, Arr, Vec, Ref, SliceRef, Enum, Opaque, BITS, INT_TYPES, mk_int, mk_bool,
                   bnot, zbool, split_top, copyval)


def strip_ref(t):
    t = t.strip()
    while t.startswith('&'):
        t = t[1:].strip()
        if t.startswith('mut '):
            t = t[4:].strip()
        if t.startswith("'"):
            t = t.split(' ', 1)[1]
    return t


def tuple_parts(t):
    t = t.strip()
    if t.startswith('(') and t.endswith(')'):
        return split_top(t[1:-1])
    return None


class IoProgram(Program):
    nt_text = None       # MIR of rlib_num_traits (for associated constants that are not already folded into the io MIR)

    def __init__(self, text):
        Program.__init__(self, text, 'io')
        self.nt_fns = None
        self.readable = {}   # return type (as printed) -> Fn
        self.writable = {}   # self type -> Fn
        self.reader_fns = {}
        self.writer_fns = {}
        for f in self.fns:
            last = f.name.split('::')[-1]
            args = [f.types.get(a, '') for a in f.argnames]
            if f.name.startswith('reader::<impl') and '{closure' not in f.name and 'promoted' not in f.name:
                if last == 'read' and args == ["&mut Reader<'_>"] and f.ret != 'T':
                    self.readable[f.ret] = f
                elif not args or args[0] in ("&mut Reader<'_>", "&Reader<'_>", 'Box<dyn std::io::Read>'):
                    self.reader_fns[last] = f
            if f.name.startswith('writer::<impl') and 'promoted' not in f.name:
                if last == 'write' and len(args) == 2 and args[1] == "&mut Writer<'_>":
                    self.writable[strip_ref(args[0])] = f
                elif last == 'drop':
                    self.writer_fns['drop'] = f
                elif not args or args[0] in ("&mut Writer<'_>", "&Writer<'_>", 'Box<dyn std::io::Write>'):
                    self.writer_fns[last] = f
        self.resolvers.append(IoProgram._resolve)
        self.const_resolvers.append(IoProgram._const)
        install_models(self)

    # ---- pre-states: the REAL constructor runs on the MIR; a buffer position is then set through the field NAMES read from the
    # constructor's struct aggregate (not through a hard-wired layout), so a private layout change does not break the harness
    def _ctor_fields(self, f, tyname):
        for b in f.blocks.values():
            for st in b:
                mm = re.match(r"^_0 = %s(?:::<[^{]*>)? \{ (.*) \};$" % re.escape(tyname), st)
                if mm:
                    return [x.split(': ', 1)[0].strip() for x in split_top(mm.group(1))]
        return None

    def fresh_reader(self, m, k=None):
        f = self.reader_fns.get('new')
        if f is None:
            raise Unsupported('Reader::new not found in the MIR')
        st = m.run(f, [Opaque('stdin')], {})
        if k is None:
            return st
        names = self._ctor_fields(f, 'Reader')
        if not names or 'begin' not in names or 'end' not in names or not isinstance(st, list) or len(st) != len(names):
            raise Unsupported('cannot place the read position: Reader has no begin/end fields in its constructor aggregate (%s)' % names)
        pos = self.buf_size('reader') - k
        st[names.index('begin')] = I(pos, 'usize')
        st[names.index('end')] = I(pos, 'usize')
        return st

    def fresh_writer(self, m, k=None, fill=46):
        f = self.writer_fns.get('new')
        if f is None:
            raise Unsupported('Writer::new not found in the MIR')
        st = m.run(f, [Opaque('stdout')], {})
        if k is None:
            return st, 0
        names = self._ctor_fields(f, 'Writer')
        if not names or 'end' not in names or 'buf' not in names or not isinstance(st, list) or len(st) != len(names):
            raise Unsupported('cannot place the fill level: Writer has no buf/end fields in its constructor aggregate (%s)' % names)
        buf = st[names.index('buf')]
        end = self.buf_size('writer') - k
        if not isinstance(buf, Arr) or buf.n < end:
            raise Unsupported('cannot pre-fill the Writer buffer: not a fixed-size array')
        buf.default = I(fill, 'u8')
        buf.d = {}
        st[names.index('end')] = I(end, 'usize')
        return st, end

    # ---- type-directed dispatch
    def readable_for(self, ty):
        ty = ty.strip()
        if ty in self.readable:
            return self.readable[ty], {}
        parts = tuple_parts(ty)
        if parts:
            for rt, f in self.readable.items():
                gp = tuple_parts(rt)
                if gp and len(gp) == len(parts):
                    return f, dict(zip(gp, parts))
        raise Unsupported('no Readable impl for ' + ty)

    def writable_for(self, ty):
        ty = ty.strip()
        if ty in self.writable:
            return self.writable[ty], {}
        if ty.startswith('&') and ty.lstrip('&').strip() in self.writable:
            return self.writable[ty.lstrip('&').strip()], {}     # impls are keyed by the self type with references stripped
        parts = tuple_parts(ty)
        if parts:
            for rt, f in self.writable.items():
                gp = tuple_parts(rt)
                if gp and len(gp) == len(parts):
                    return f, dict(zip(gp, parts))
        m = re.match(r'^Vec<(.*)>$', ty)
        if m and 'Vec<T>' in self.writable:
            return self.writable['Vec<T>'], {'T': m.group(1)}
        raise Unsupported('no Writable impl for ' + ty)

    def _resolve(self, fr, callee):
        m = re.match(r"^Reader::<'_>::(\w+)(?:::<(.*)>)?$", callee)
        if m and m.group(1) in self.reader_fns:
            f = self.reader_fns[m.group(1)]
            sub = {}
            if m.group(2):
                sub = {'T': fr.subst.get(m.group(2), m.group(2))}
            return f, sub
        m = re.match(r"^Writer::<'_>::(\w+)(?:::<(.*)>)?$", callee)
        if m and m.group(1) in self.writer_fns:
            f = self.writer_fns[m.group(1)]
            sub = {}
            if m.group(2):
                sub = {'T': fr.subst.get(m.group(2), m.group(2))}
            return f, sub
        m = re.match(r"^<(.*) as (?:reader::)?Readable>::read$", callee)
        if m:
            ty = fr.subst.get(m.group(1), m.group(1))
            return self.readable_for(ty)
        m = re.match(r"^<(.*) as (?:writer::)?Writable>::write$", callee)
        if m:
            ty = fr.subst.get(m.group(1), m.group(1))
            return self.writable_for(ty)
        m = re.match(r"^<Writer<'_> as Drop>::drop$", callee)
        if m:
            return self.writer_fns['drop'], {}
        return None

    def _const(self, m, fr, s):
        mm = re.match(r"^(reader::Reader|writer::Writer)::<'_>::BUF_SIZE$", s)
        if mm:
            mod = 'reader' if 'reader' in mm.group(1) else 'writer'
            for f in self.fns:
                if f.name.startswith(mod + '::<impl') and f.name.endswith('::BUF_SIZE'):
                    v = m.run(f, [], {})
                    self.const_cache[s] = v
                    return v
        mm = re.match(r"^<(\w+) as rlib_num_traits::FixedSizeInteger>::BASE_10_LEN$", s)
        if mm:
            if self.nt_fns is None:
                if not IoProgram.nt_text:
                    raise Unsupported('associated constant of rlib_num_traits needed but its MIR was not provided: ' + s)
                from .core import parse_mir
                self.nt_fns = parse_mir(IoProgram.nt_text)
            t = mm.group(1)
            ut = t if t[0] == 'u' else 'u' + t[1:]
            cands = [f for f in self.nt_fns if f.name.endswith('::BASE_10_LEN') and f.types.get('_1') == ut]
            if not cands:
                raise Unsupported('BASE_10_LEN for %s not found in the MIR of rlib_num_traits' % t)
            v = m.run(cands[0], [], {})
            self.const_cache[s] = v
            return v
        mm = re.match(r"^<(\w+) as (?:writer::)?Writable>::write::promoted\[(\d+)\]$", s)
        if mm:
            f = self.find_promoted(fr.fn, s)
            return m.run(f, [], fr.subst)
        return None

    def buf_size(self, which):
        from .core import Machine
        m = Machine(self)
        return self._const(m, None, ("reader::Reader" if which == 'reader' else "writer::Writer") + "::<'_>::BUF_SIZE").v


def _load(x):
    return x.load() if isinstance(x, Ref) else x


def as_slice(x):
    x = _load(x)
    if isinstance(x, SliceRef):
        return x
    if isinstance(x, (Arr, Vec)):
        return SliceRef(x, 0, x.n)
    raise Unsupported('not a slice: %r' % (x,))


def conc(m, iv, what):
    if isinstance(iv, I):
        if iv.sym():
            raise Unsupported('symbolic ' + what)
        return iv.v
    raise Unsupported('non-integer ' + what)


def digit_pair_window(P, arr, start, end):
    """decimal-structure lemma L4: T is the table "00".."99" (checked on its concrete contents), the index is 2*x for a value x
    annotated with at most two decimal digits, the window has length 2  =>  the window is ('0'+tens digit, '0'+units digit)"""
    sc = getattr(start, 'scaled', None)
    if not sc or sc[0] != 2 or sc[1].dec is None or len(sc[1].dec) > 2 or arr.n != 200:
        return None
    ln = z3.simplify(end.z() - start.z())
    if not (z3.is_bv_value(ln) and ln.as_long() == 2):
        return None
    for k in range(100):
        a, b = arr.get(2 * k), arr.get(2 * k + 1)
        if a.sym() or b.sym() or a.v != 48 + k // 10 or b.v != 48 + k % 10:
            return None
    dec = sc[1].dec
    units = dec[0] if dec else z3.BitVecVal(0, 8)
    tens = dec[1] if len(dec) > 1 else z3.BitVecVal(0, 8)
    P.used_lemmas.add(('digit-pair-table', 32, 2))
    return SliceRef(Arr(2, I(0, 'u8'), {0: mk_int(tens + 48, 'u8'), 1: mk_int(units + 48, 'u8')}), 0, 2)


def sym_window(m, arr, start, end):
    """&table[start..end] with a SYMBOLIC start and a concrete length, into a table of concrete contents: the window's elements
    are if-then-else chains over the table (read-only copy)"""
    ln = z3.simplify(end.z() - start.z())
    if not z3.is_bv_value(ln):
        raise Unsupported('window of symbolic length into a table')
    ln = ln.as_long()
    n = arr.n
    if n > 1024 or ln > 16:
        raise Unsupported('symbolic window into a table of %d elements' % n)
    items = [arr.get(i) for i in range(n)]
    if any(x.sym() for x in items):
        raise Unsupported('symbolic window into a table with symbolic contents')
    if not m.branch_bool(mk_bool(z3.And(z3.ULE(start.z(), end.z()), z3.ULE(end.z(), n)))):
        raise Panic('range end index out of range for slice of length %d (symbolic window)' % n, 'index')
    ty = items[0].ty
    out = {}
    for j in range(ln):
        e = z3.BitVecVal(items[n - 1].v, BITS[ty])
        for k in range(n - 1 - j, -1, -1):
            e = z3.If(start.z() == k, z3.BitVecVal(items[k + j].v, BITS[ty]), e)
        out[j] = mk_int(e, ty)
    return SliceRef(Arr(ln, I(0, ty), out), 0, ln)


def install_models(P):
    M = P.model

    @M(r'^core::panicking::(panic|panic_fmt|panic_explicit)$', regex=True)
    def _(m, fr, a, _m):
        msg = a[0] if a else ''
        if isinstance(msg, SliceRef):
            msg = ''.join(chr(b.v) for b in msg.values())
        raise Panic('explicit panic: %s' % (msg,), 'explicit')

    @M('core::num::<impl u8>::is_ascii_whitespace')
    def _(m, fr, a, _m):
        v = _load(a[0])
        ws = (9, 10, 12, 13, 32)
        if not v.sym():
            return v.v in ws
        return mk_bool(z3.Or([v.v == k for k in ws]))

    @M('core::num::<impl u8>::is_ascii_digit')
    def _(m, fr, a, _m):
        v = _load(a[0])
        if not v.sym():
            return 48 <= v.v <= 57
        return mk_bool(z3.And(z3.UGE(v.v, 48), z3.ULE(v.v, 57)))

    @M(r'^<\[\w+; \w+\] as Index(?:Mut)?<(?:std::ops::)?(RangeFrom|RangeTo|Range)<usize>>>::index(?:_mut)?$', regex=True)
    def _(m, fr, a, mm):
        arr = _load(a[0])
        rng = a[1]
        kind = mm.group(1)
        if kind == 'Range' and isinstance(rng[0], I) and rng[0].sym() and 'Mut' not in mm.string:
            w = digit_pair_window(P, arr, rng[0], rng[1])
            if w is not None:
                return w
            if getattr(P, 'allow_sym_window', False):
                return sym_window(m, arr, rng[0], rng[1])     # off by default: with wide integers the resulting queries ran for hours
        if kind == 'RangeFrom':
            st, en = conc(m, rng[0], 'range start'), arr.n
        elif kind == 'RangeTo':
            st, en = 0, conc(m, rng[0], 'range end')
        else:
            st, en = conc(m, rng[0], 'range start'), conc(m, rng[1], 'range end')
        if st > en:
            raise Panic('slice index starts at %d but ends at %d' % (st, en), 'index')
        if en > arr.n:
            raise Panic('range end index %d out of range for slice of length %d' % (en, arr.n), 'index')
        return SliceRef(arr, st, en - st)

    @M(r'^core::slice::<impl \[u8\]>::copy_within::<std::ops::Range<usize>>$', regex=True)
    def _(m, fr, a, _m):
        sl, rng, dst = as_slice(a[0]), a[1], a[2]
        s, e, d = conc(m, rng[0], 'range'), conc(m, rng[1], 'range'), conc(m, dst, 'dest')
        if s > e:
            raise Panic('slice index starts at %d but ends at %d' % (s, e), 'index')
        if e > sl.n:
            raise Panic('range end out of range', 'index')
        if d + (e - s) > sl.n:
            raise Panic('dest is out of bounds', 'index')
        vals = [sl.get(i) for i in range(s, e)]
        for i, v in enumerate(vals):
            sl.set(d + i, v)
        return []

    @M(r'^core::slice::<impl \[\w+\]>::reverse$', regex=True)
    def _(m, fr, a, _m):
        sl = as_slice(a[0])
        vals = sl.values()[::-1]
        for i, v in enumerate(vals):
            sl.set(i, v)
        return []

    @M('core::slice::<impl [u8]>::copy_from_slice')
    def _(m, fr, a, _m):
        dst, src = as_slice(a[0]), as_slice(a[1])
        if dst.n != src.n:
            raise Panic('source slice length (%d) does not match destination slice length (%d)' % (src.n, dst.n), 'index')
        vals = src.values()
        for i, v in enumerate(vals):
            dst.set(i, v)
        return []

    @M('<Box<dyn std::io::Read> as std::io::Read>::read')
    def _(m, fr, a, _m):
        return m.env.read(m, as_slice(a[1]))

    @M('<Box<dyn std::io::Write> as std::io::Write>::write_all')
    def _(m, fr, a, _m):
        return m.env.write_all(m, as_slice(a[1]))

    @M('<Box<dyn std::io::Write> as std::io::Write>::write')
    def _(m, fr, a, _m):
        return m.env.write(m, as_slice(a[1]))

    @M('<Box<dyn std::io::Write> as std::io::Write>::flush')
    def _(m, fr, a, _m):
        return Enum('Ok', [[]])

    @M(r'^Result::<.*>::unwrap$', regex=True)
    def _(m, fr, a, _m):
        r = a[0]
        if r.variant == 'Ok':
            return r.fields[0] if r.fields else []
        raise Panic('called `Result::unwrap()` on an `Err` value: %s' % (r.fields[0],), 'unwrap_err')

    @M(r'^Option::<.*>::unwrap$', regex=True)
    def _(m, fr, a, _m):
        if a[0].variant == 'None':
            raise Panic('called `Option::unwrap()` on a `None` value', 'unwrap_none')
        return a[0].fields[0]

    @M('std::io::Error::kind')
    def _(m, fr, a, _m):
        e = _load(a[0])
        return Enum(e.payload if isinstance(e, Opaque) else e)

    @M('<ErrorKind as PartialEq>::eq')
    def _(m, fr, a, _m):
        x, y = _load(a[0]), _load(a[1])
        return x.variant == y.variant

    @M('String::new')
    def _(m, fr, a, _m):
        return Vec([], True)

    @M('String::push')
    def _(m, fr, a, _m):
        _load(a[0]).items.append(a[1])
        return []

    @M('String::pop')
    def _(m, fr, a, _m):
        s = _load(a[0])
        return Enum('Some', [s.items.pop()]) if s.items else Enum('None')

    @M(r'^(String::as_bytes|core::str::<impl str>::as_bytes)$', regex=True)
    def _(m, fr, a, _m):
        return as_slice(a[0])

    @M(r'^Vec::<.*>::with_capacity$', regex=True)
    def _(m, fr, a, _m):
        return Vec([])

    @M(r'^Vec::<.*>::new$', regex=True)
    def _(m, fr, a, _m):
        return Vec([])

    @M(r'^Vec::<.*>::push$', regex=True)
    def _(m, fr, a, _m):
        _load(a[0]).items.append(a[1])
        return []

    @M(r'^<Vec<.*> as Deref>::deref$', regex=True)
    def _(m, fr, a, _m):
        return as_slice(a[0])

    # ---- iterators (modelled, not executed)
    @M(r'^<std::ops::Range<usize> as IntoIterator>::into_iter$', regex=True)
    def _(m, fr, a, _m):
        return a[0]

    @M(r'^<std::ops::Range<usize> as Iterator>::next$', regex=True)
    def _(m, fr, a, _m):
        r = _load(a[0])
        s, e = conc(m, r[0], 'range'), conc(m, r[1], 'range')
        if s < e:
            r[0] = I(s + 1, 'usize')
            return Enum('Some', [I(s, 'usize')])
        return Enum('None')

    @M(r'^core::slice::<impl \[u8\]>::chunks$', regex=True)
    def _(m, fr, a, _m):
        sl = as_slice(a[0])
        k = conc(m, a[1], 'chunk size')
        if k == 0:
            raise Panic('chunk size must be non-zero')
        return Opaque('chunks', [sl, k, 0])

    @M(r"^<Chunks<'_, u8> as IntoIterator>::into_iter$", regex=True)
    def _(m, fr, a, _m):
        return a[0]

    @M(r"^<Chunks<'_, u8> as Iterator>::next$", regex=True)
    def _(m, fr, a, _m):
        it = _load(a[0]).payload
        sl, k, pos = it
        if pos >= sl.n:
            return Enum('None')
        n = min(k, sl.n - pos)
        it[2] = pos + n
        return Enum('Some', [SliceRef(sl.arr, sl.start + pos, n)])

    @M(r'^core::slice::<impl \[\w+\]>::iter$', regex=True)
    def _(m, fr, a, _m):
        return Opaque('iter', [as_slice(a[0]), 0])

    @M(r"^<std::slice::Iter<'_, T> as Iterator>::enumerate$", regex=True)
    def _(m, fr, a, _m):
        return a[0]

    @M(r"^<Enumerate<std::slice::Iter<'_, T>> as IntoIterator>::into_iter$", regex=True)
    def _(m, fr, a, _m):
        return a[0]

    @M(r"^<Enumerate<std::slice::Iter<'_, T>> as Iterator>::next$", regex=True)
    def _(m, fr, a, _m):
        it = _load(a[0]).payload
        sl, pos = it
        if pos >= sl.n:
            return Enum('None')
        it[1] = pos + 1
        return Enum('Some', [[I(pos, 'usize'), Ref(sl.arr, sl.start + pos) if isinstance(sl.arr, (Arr, Vec)) else Ref(sl, pos)]])

    @M(r'^<std::ops::RangeFrom<i32> as Iterator>::map_while::<String, \{closure@.*\}>$', regex=True)
    def _(m, fr, a, _m):
        return Opaque('map_while', [a[0], a[1]])

    @M(r'^<MapWhile<std::ops::RangeFrom<i32>, \{closure@.*\}> as Iterator>::collect::<Vec<String>>$', regex=True)
    def _(m, fr, a, _m):
        rng, clo = a[0].payload
        start = conc(m, rng[0], 'range start')
        f = [g for g in P.fns if g.name.endswith('read_lines::{closure#0}')]
        if len(f) != 1:
            raise Unsupported('closure lookup')
        out = Vec([])
        k = start
        cell = [clo]
        while True:
            r = m.run(f[0], [Ref(cell, 0), I(k, 'i32')], fr.subst)
            if r.variant == 'None':
                return out
            out.items.append(r.fields[0])
            k += 1
            if k - start > 1000:
                raise Unsupported('unbounded map_while')

    @M(r'^core::num::<impl (i\w+)>::unsigned_abs$', regex=True)
    def _(m, fr, a, mm):
        v = a[0]
        ut = 'u' + mm.group(1)[1:]
        if v.negof is not None:
            return v.negof
        if v.dec is not None:
            return I(v.v, ut, dec=v.dec)
        if not v.sym():
            return I(abs(v.sval()), ut)
        x = v.v
        return mk_int(z3.If(x < 0, -x, x), ut)

    @M(r'^<&(\w+) as PartialEq>::eq$', regex=True)
    def _(m, fr, a, mm):
        x, y = _load(_load(a[0])), _load(_load(a[1]))
        return m.binop('Eq', x, y)

    @M(r'^<&(\w+) as PartialOrd>::(lt|le|gt|ge)$', regex=True)
    def _(m, fr, a, mm):
        x, y = _load(_load(a[0])), _load(_load(a[1]))
        return m.binop(mm.group(2).capitalize(), x, y)


# ------------------------------------------------------------------ environments

    from .stdmodel import install_std_models
    install_std_models(P)

class ReadEnv:
    """<Box<dyn Read>>::read stub: forks over every admissible chunk length; Ok(0) only at end of input;
    optionally Err(Interrupted) before a call (at most `faults` times, never twice in a row more than `faults`)."""

    def __init__(self, data, faults=0, fixed_schedule=None, max_chunk=None):
        self.data, self.pos, self.faults = data, 0, faults
        self.schedule = []
        self.fixed = list(fixed_schedule) if fixed_schedule is not None else None
        self.max_chunk = max_chunk

    def read(self, m, sl):
        rem = len(self.data) - self.pos
        if self.fixed is not None:
            c = self.fixed.pop(0) if self.fixed else min(rem, sl.n)
            if c != 'intr':
                c = min(c, rem, sl.n)
        else:
            opts = []
            if rem == 0 or sl.n == 0:
                opts.append(0)
            else:
                hi = min(rem, sl.n)
                if self.max_chunk:
                    hi = min(hi, self.max_chunk)
                # whole remainder first (the Cursor-like schedule is path 0), then every shorter chunk
                opts += list(range(hi, 0, -1))
            if self.faults > 0:
                opts.append('intr')
            c = opts[m.decide(len(opts))] if len(opts) > 1 else opts[0]
        self.schedule.append(c)
        if c == 'intr':
            self.faults -= 1
            return Enum('Err', [Opaque('io::Error', 'Interrupted')])
        for i in range(c):
            sl.set(i, self.data[self.pos + i])
        self.pos += c
        return Enum('Ok', [I(c, 'usize')])


class WriteEnv:
    """<Box<dyn Write>>::write_all stub: records the delivered bytes (write_all's own retry loop over partial writes and
    Interrupted is std's contract, not rlib code)."""

    def __init__(self):
        self.sink = []
        self.calls = []

    def write_all(self, m, sl):
        vals = sl.values()
        self.sink += vals
        self.calls.append(len(vals))
        return Enum('Ok', [[]])

    def write(self, m, sl):
        """a single `write` call (not used by the library as it stands): the sink may accept everything, only a part, or
        report Interrupted - the caller has to cope (that is what write_all does)"""
        vals = sl.values()
        opts = ['all']
        if len(vals) > 1:
            opts.append('part')
        opts.append('intr')
        c = opts[m.decide(len(opts))] if len(opts) > 1 else opts[0]
        self.calls.append('write:' + c)
        if c == 'intr':
            return Enum('Err', [Opaque('io::Error', 'Interrupted')])
        k = len(vals) if c == 'all' else max(1, len(vals) // 2)
        self.sink += vals[:k]
        return Enum('Ok', [I(k, 'usize')])
