"""C17: two threads creating treap nodes concurrently (mirsym on the MIR of rlib_treap + rlib_rand).

The only code that touches process-wide state is TreapNode::new -> gen_priority -> Rng::next_raw. Two interpreter threads
each perform k creations; the SCHEDULE is the explored input: before every access to memory that is not thread-private
(a `static` reached through `const {alloc..}`) the scheduler forks over which thread moves next (all sequentially consistent
interleavings at access granularity). Threads are advanced by re-execution with a log of the values they have already read
(no OS threads). The initial generator state is a SYMBOLIC 64-bit value, so the outcome verdict is a solver query over all states.

Verdicts: (i) data race: a reachable scheduling point where both threads' next accesses hit the same location, at least one
writes, and neither is protected (atomic / lock / thread-local); (ii) outcome: for every initial state the priorities the two
threads obtained are what SOME sequential order of the same calls produces (no draw lost or duplicated).
Anything outside the modelled synchronisation constructs => Unsupported (inconclusive)."""
import re, itertools, time, z3
from .core import Program, Machine, Unsupported, Panic, I, Ref, Enum, Opaque, Arr, BITS, mk_int, mk_bool, copyval


class Yield(Exception):
    """the thread is about to perform its next new shared access"""
    def __init__(self, kind, loc, protected):
        self.kind, self.loc, self.protected = kind, loc, protected


class SharedStruct(list):
    """a struct living in a `static`: every field read/write is a shared access"""
    def __init__(self, items, name, ctl):
        list.__init__(self, items)
        self.name, self.ctl = name, ctl

    def __getitem__(self, k):
        return self.ctl.access('R', (self.name, k), lambda: list.__getitem__(self, k), None)

    def __setitem__(self, k, v):
        return self.ctl.access('W', (self.name, k), None, lambda: list.__setitem__(self, k, v))


class ThreadCtl:
    """drives one interpreter thread by re-execution: `log` = results of the shared accesses it has performed so far"""
    def __init__(self, tid):
        self.tid = tid
        self.log = []
        self.pos = 0
        self.mode = 'peek'      # 'peek': stop before the next new access; 'step': perform exactly one new access, then stop
        self.done = False
        self.results = None
        self.protected = 0      # >0 while inside a lock / atomic section

    def access(self, kind, loc, reader, writer):
        i = self.pos
        self.pos += 1
        if i < len(self.log):
            return self.log[i][2] if kind == 'R' else None       # replay
        if self.mode == 'peek':
            raise Yield(kind, loc, self.protected > 0)
        if self.mode == 'step':
            val = reader() if kind == 'R' else writer()
            self.log.append((kind, loc, val))
            self.mode = 'peek'
            return val if kind == 'R' else None
        raise Unsupported('thread control mode')


class ConcProgram(Program):
    def __init__(self, treap_text, rand_text):
        Program.__init__(self, treap_text + "\n" + rand_text, 'treap+rand')
        self.fn = {}
        for f in self.fns:
            self.fn.setdefault(f.name.split('::')[-1], []).append(f)
        self.statics = {}          # alloc id -> static name
        for m in re.finditer(r'^(alloc\d+) \(static: (\w+), size: (\d+), align: \d+\) \{\n((?:    .*\n)*?)\}', treap_text, re.M):
            self.statics[m.group(1)] = (m.group(2), int(m.group(3)), m.group(4))
        self.cur = None            # ThreadCtl of the running thread
        self.shared = {}           # static name -> SharedStruct (one world per schedule)
        self.tls = {}              # (tid, key) -> thread-local value
        self.init_state = None
        self.resolvers.append(ConcProgram._resolve)
        self.const_resolvers.append(ConcProgram._const)
        M = self.model

        @M(r'^LocalKey::<.*>::with::<\{closure@.*\}, .*>$', regex=True)
        def _(m, fr, a, mm):
            # thread_local!: one instance per interpreter thread, created on first use by the dumped init fn
            key = a[0].payload if isinstance(a[0], Opaque) else 'tls'
            slot = (self.cur.tid, key)
            if slot not in self.tls:
                init = [f for f in self.fns if f.name.split('::')[-1] == '__rust_std_internal_init_fn']
                if len(init) != 1:
                    raise Unsupported('thread_local initialiser not found')
                self.tls[slot] = [m.run(init[0], [], {})]
            clo = [f for f in self.fns if re.match(r'^(treap_node::)?gen_priority::\{closure#0\}$', f.name)]
            if len(clo) != 1:
                raise Unsupported('closure passed to LocalKey::with not found')
            cell = self.tls[slot][0]
            return m.run(clo[0], [a[1], Ref([cell], 0)], fr.subst)

        # ---- the clock is environment: an arbitrary instant each time it is read
        self.clock_reads = 0

        @M('SystemTime::now')
        def _(m, fr, a, mm):
            return Opaque('instant')

        @M('SystemTime::duration_since')
        def _(m, fr, a, mm):
            return Enum('Ok', [Opaque('duration')])

        @M(r'^Result::<.*>::unwrap$', regex=True)
        def _(m, fr, a, mm):
            if a[0].variant != 'Ok':
                raise Panic('unwrap on Err')
            return a[0].fields[0]

        @M('Duration::as_nanos')
        def _(m, fr, a, mm):
            self.clock_reads += 1
            return I(z3.BitVec('clock!%d' % self.clock_reads, 128), 'u128')

        @M(r'^Cell::<.*>::new$', regex=True)
        def _(m, fr, a, mm):
            return [a[0]]

        @M(r'^Cell::<.*>::get$', regex=True)
        def _(m, fr, a, mm):
            c = a[0].load() if isinstance(a[0], Ref) else a[0]
            return copyval(c[0])

        @M(r'^Cell::<.*>::set$', regex=True)
        def _(m, fr, a, mm):
            c = a[0].load() if isinstance(a[0], Ref) else a[0]
            c[0] = a[1]
            return []

        @M(r'^core::num::<impl (\w+)>::wrapping_(mul|add|sub)$', regex=True)
        def _(m, fr, a, mm):
            op = {'mul': 'Mul', 'add': 'Add', 'sub': 'Sub'}[mm.group(2)]
            return m.binop(op, a[0], a[1])

    def one(self, name, pred=None):
        c = [f for f in self.fn.get(name, []) if '// MIR FOR CTFE' not in f.header and (pred is None or pred(f))]
        # the dump prints const fns twice (runtime MIR and "MIR FOR CTFE"): take the first
        if not c:
            raise Unsupported('fn %s not found' % name)
        return c[0]

    def _resolve(self, fr, callee):
        if callee == 'gen_priority':
            return self.one('gen_priority'), {}
        m = re.match(r'^LinearCongruentialGenerator64::<(\d+), (\d+)>::(\w+)$', callee)
        if m:
            return self.one(m.group(3)), {'A': m.group(1) + '_u64', 'C': m.group(2) + '_u64'}
        m = re.match(r'^LinearCongruentialGenerator64::<A, C>::(\w+)$', callee)
        if m:
            return self.one(m.group(1)), fr.subst
        m = re.match(r'^TreapNode::<T>::new$', callee)
        if m:
            return self.one('new', lambda f: 'TreapNode<T>' in (f.ret or '')), {}
        return None

    def _const(self, m, fr, s):
        if s in ('A', 'C') and s in fr.subst:
            return m.const(fr, fr.subst[s])
        if s == 'std::time::SystemTime::UNIX_EPOCH':
            return Opaque('epoch')
        if s.startswith('ZeroSized: {closure@'):
            return Opaque('closure', s)
        if re.match(r'^(treap_node::)?gen_priority::promoted\[\d+\]$', s):
            f = self.find_promoted(fr.fn, s)
            if 'LocalKey' in (f.ret or ''):
                return Opaque('localkey', 'RNG')
        mm = re.match(r'^\{(alloc\d+): \*(mut|const) (.*)\}$', s)
        if mm:
            if mm.group(1) not in self.statics:
                raise Unsupported('pointer to unknown allocation ' + s)
            name = self.statics[mm.group(1)][0]
            return Ref([self.shared[name]], 0)
        return None

    # ---- a world = fresh shared memory for one schedule
    def new_world(self, ctl_of):
        self.shared = {}
        for alloc, (name, size, _bytes) in self.statics.items():
            if size != 8:
                raise Unsupported('static %s of size %d: layout not modelled' % (name, size))
            self.shared[name] = SharedStruct([self.init_state], name, self)

    def access(self, kind, loc, reader, writer):
        return self.cur.access(kind, loc, reader, writer)


def thread_body(P, k):
    def run(m):
        out = []
        for _ in range(k):
            out.append(m.run(P.one('gen_priority'), [], {}))
        return out
    return run


def advance(P, ctl, body, mode):
    """re-run thread `ctl` from its start, replaying its log; -> ('yield', kind, loc, protected) | ('done', results)"""
    P.cur = ctl
    for key in [k for k in P.tls if k[0] == ctl.tid]:
        del P.tls[key]          # thread-private state is rebuilt by the re-execution
    ctl.pos = 0
    ctl.mode = mode
    m = Machine(P)
    try:
        res = body(m)
    except Yield as y:
        return ('yield', y.kind, y.loc, y.protected)
    if mode == 'step' and ctl.mode == 'step':
        raise Unsupported('step requested but the thread had no shared access left')
    return ('done', res)


def explore_schedules(P, k, max_schedules=20000, stop_at_race=False):
    """DFS over all interleavings of the shared accesses of two threads doing k creations each"""
    body = thread_body(P, k)
    prefix = []
    out = []
    t0 = time.time()
    while True:
        P.init_state = I(z3.BitVec('s0', 64), 'u64')
        ctls = [ThreadCtl(0), ThreadCtl(1)]
        P.new_world(ctls)
        trace = []
        race = None
        results = [None, None]
        while True:
            nxt = []
            for c in ctls:
                if c.done:
                    nxt.append(None)
                    continue
                r = advance(P, c, body, 'peek')
                if r[0] == 'done':
                    c.done = True
                    results[c.tid] = r[1]
                    nxt.append(None)
                else:
                    nxt.append(r[1:])
            ready = [i for i, x in enumerate(nxt) if x is not None]
            if not ready:
                break
            if len(ready) == 2:
                (k0, l0, p0), (k1, l1, p1) = nxt[0], nxt[1]
                if l0 == l1 and 'W' in (k0, k1) and not (p0 and p1) and race is None:
                    race = dict(at=len(trace), accesses=[(0, k0, l0), (1, k1, l1)], schedule_prefix=[t for t, _ in trace])
            i = len(trace)
            c = prefix[i] if i < len(prefix) else 0
            if c >= len(ready):
                raise Unsupported('schedule replay mismatch')
            tid = ready[c]
            trace.append((tid, len(ready)))
            r = advance(P, ctls[tid], body, 'step')
            if r[0] == 'done':
                ctls[tid].done = True
                results[tid] = r[1]
        out.append(dict(schedule=[t for t, _ in trace], results=results, race=race))
        if stop_at_race and race is not None:
            return out
        # next schedule (DFS on the choice among ready threads)
        choices = []
        ready_counts = [n for _, n in trace]
        tr = [(prefix[i] if i < len(prefix) else 0, ready_counts[i]) for i in range(len(trace))]
        while tr and tr[-1][0] + 1 >= tr[-1][1]:
            tr.pop()
        if not tr:
            return out
        if len(out) >= max_schedules:
            raise Unsupported('more than %d schedules' % max_schedules)
        prefix = [c for c, _ in tr[:-1]] + [tr[-1][0] + 1]


class Free(ThreadCtl):
    """no scheduling: accesses go straight to memory (used for the sequential reference executions)"""
    def access(self, kind, loc, reader, writer):
        return reader() if kind == 'R' else writer()


def sequential_results(P, k, order):
    """run the 2k creations one after another (each call atomic) in the given order of thread ids, in a fresh world"""
    P.init_state = I(z3.BitVec('s0', 64), 'u64')
    P.new_world(None)
    P.tls = {}
    ctl = {0: Free(0), 1: Free(1)}
    res = {0: [], 1: []}
    for tid in order:
        P.cur = ctl[tid]
        m = Machine(P)
        res[tid].append(m.run(P.one('gen_priority'), [], {}))
    return res[0], res[1]


def outcome_violation(P, k, sched):
    """is there an initial state for which NO sequential order of the 2k calls gives these per-thread priorities?"""
    a, b = sched['results']
    alts = []
    for pos in itertools.combinations(range(2 * k), k):
        order = [0 if i in pos else 1 for i in range(2 * k)]
        ra, rb = sequential_results(P, k, order)
        conj = []
        same = True
        for x, y in list(zip(a, ra)) + list(zip(b, rb)):
            if x.sym() or y.sym():
                if not (x.sym() and y.sym() and x.v.eq(y.v)):
                    same = False
                    conj.append(x.z() == y.z())
            elif x.v != y.v:
                same = False
                conj.append(z3.BoolVal(False))
        if same:
            return None              # identical terms: this schedule IS that sequential execution, for every state
        alts.append(z3.And(conj))
    s = z3.Solver()
    s.set('timeout', 60000)
    s.add(z3.Not(z3.Or(alts)))
    r = s.check()
    if r == z3.unknown:
        raise Unsupported('z3 unknown on an outcome obligation')
    if r == z3.sat:
        mdl = s.model()
        s0 = mdl.eval(z3.BitVec('s0', 64), model_completion=True).as_long()
        ev = lambda t: mdl.eval(t.z(), model_completion=True).as_long() if t.sym() else t.v
        return dict(s0=s0, thread0=[ev(x) for x in a], thread1=[ev(x) for x in b])
    return None
