"""C17: two threads creating treap nodes concurrently (mirsym on the MIR of rlib_treap + rlib_rand).

The only code that touches process-wide state is TreapNode::new -> gen_priority -> Rng::next_raw. Two interpreter threads
each perform k creations; the SCHEDULE is the explored input: before every access to memory that is not thread-private
(a `static` reached through `const {alloc..}`) the scheduler forks over which thread moves next (all sequentially consistent
interleavings at access granularity). Threads are advanced by re-execution with a log of the values they have already read
(no OS threads). The initial generator state is a SYMBOLIC 64-bit value, so the outcome verdict is a solver query over all states.

Verdicts: (i) data race: a reachable scheduling point where both threads' next accesses hit the same location, at least one
writes, and neither is protected (atomic / lock / thread-local); (ii) outcome: for every initial state the priorities the two
threads obtained are what SOME sequential order of the same calls produces (no draw lost or duplicated).
Modelled synchronisation: thread_local!/Cell (thread-private), std::sync::Mutex (lock = blocking acquire, guard drop = release,
accesses through the guard are protected by that lock), scalar std::sync::atomic types (load/store/swap/fetch_add/fetch_sub/
compare_exchange are single indivisible accesses; all orderings are explored as sequentially consistent).
Anything outside the modelled synchronisation constructs => Unsupported (inconclusive)."""
import re, itertools, time, z3
from .core import Program, Machine, Unsupported, Panic, I, Ref, Enum, Opaque, Arr, BITS, mk_int, mk_bool, copyval


class Yield(Exception):
    """the thread is about to perform its next new shared access"""
    def __init__(self, kind, loc, protected):
        self.kind, self.loc, self.protected = kind, loc, protected


class SharedStruct(list):
    """a struct living in a `static`: every field read/write is a shared access"""
    def __init__(self, items, name, ctl):
        list.__init__(self, items)
        self.name, self.ctl = name, ctl

    def __getitem__(self, k):
        return self.ctl.access('R', (self.name, k), lambda: list.__getitem__(self, k))

    def __setitem__(self, k, v):
        return self.ctl.access('W', (self.name, k), lambda: list.__setitem__(self, k, v))

    def __iter__(self):
        return iter([self[k] for k in range(len(self))])

    def raw(self, k):
        return list.__getitem__(self, k)

    def raw_set(self, k, v):
        list.__setitem__(self, k, v)


class SharedCell(list):
    """the place `*guard` / `*ptr` of a shared struct: a whole-struct assignment is a write of every field"""
    def __setitem__(self, k, v):
        tgt = list.__getitem__(self, k)
        if not isinstance(v, list) or len(v) != len(tgt):
            raise Unsupported('whole-struct store of a different shape into shared memory')
        for i, x in enumerate(v):
            tgt[i] = x


class MutexObj:
    def __init__(self, name, data):
        self.name, self.data, self.held = name, data, None


class AtomicObj:
    def __init__(self, name, cell, ty):
        self.name, self.cell, self.ty = name, cell, ty


class ThreadCtl:
    """drives one interpreter thread by re-execution: `log` = results of the shared accesses it has performed so far"""
    def __init__(self, tid):
        self.tid = tid
        self.log = []
        self.pos = 0
        self.mode = 'peek'      # 'peek': stop before the next new access; 'step': perform exactly one new access, then stop
        self.done = False
        self.results = None
        self.held = set()       # locks held at this point of the (re-)execution
        self.atomic = False     # the access being performed is an atomic operation

    def protection(self):
        return frozenset(self.held) | (frozenset(['<atomic>']) if self.atomic else frozenset())

    def access(self, kind, loc, fn):
        """kind: R read, W write, RW indivisible read-modify-write, L lock acquire, U lock release; fn performs it on the world"""
        i = self.pos
        self.pos += 1
        if i < len(self.log):
            return self.log[i][2]       # replay
        if self.mode == 'peek':
            raise Yield(kind, loc, self.protection())
        if self.mode == 'step':
            val = fn()
            if kind == 'W':
                val = None
            self.log.append((kind, loc, val))
            self.mode = 'peek'
            return val
        raise Unsupported('thread control mode')


class ConcProgram(Program):
    def __init__(self, treap_text, rand_text):
        Program.__init__(self, treap_text + "\n" + rand_text, 'treap+rand')
        self.fn = {}
        for f in self.fns:
            self.fn.setdefault(f.name.split('::')[-1], []).append(f)
        self.statics = {}          # alloc id -> static name
        for m in re.finditer(r'^(alloc\d+) \(static: (\w+), size: (\d+), align: \d+\) \{\n((?:    .*\n)*?)\}', treap_text, re.M):
            self.statics[m.group(1)] = (m.group(2), int(m.group(3)), m.group(4))
        self.static_ty = {}        # static name -> declared type
        for m in re.finditer(r'^static (?:mut )?(?:[\w:]+::)?(\w+): (.+) = \{$', treap_text, re.M):
            self.static_ty[m.group(1)] = m.group(2)
        self.cur = None            # ThreadCtl of the running thread
        self.shared = {}           # static name -> SharedStruct (one world per schedule)
        self.tls = {}              # (tid, key) -> thread-local value
        self.init_state = None
        self.resolvers.append(ConcProgram._resolve)
        self.const_resolvers.append(ConcProgram._const)
        M = self.model

        @M(r'^LocalKey::<.*>::with::<\{closure@.*\}, .*>$', regex=True)
        def _(m, fr, a, mm):
            # thread_local!: one instance per interpreter thread, created on first use by the dumped init fn
            key = a[0].payload if isinstance(a[0], Opaque) else 'tls'
            slot = (self.cur.tid, key)
            if slot not in self.tls:
                init = [f for f in self.fns if f.name.split('::')[-1] == '__rust_std_internal_init_fn']
                if len(init) != 1:
                    raise Unsupported('thread_local initialiser not found')
                self.tls[slot] = [m.run(init[0], [], {})]
            clo = [f for f in self.fns if re.match(r'^(treap_node::)?gen_priority::\{closure#0\}$', f.name)]
            if len(clo) != 1:
                raise Unsupported('closure passed to LocalKey::with not found')
            cell = self.tls[slot][0]
            return m.run(clo[0], [a[1], Ref([cell], 0)], fr.subst)

        # ---- std::sync::Mutex
        @M(r'^(?:std::sync::)?Mutex::<.*>::lock$', regex=True)
        def _(m, fr, a, mm):
            mx = a[0].load() if isinstance(a[0], Ref) else a[0]
            if not isinstance(mx, MutexObj):
                raise Unsupported('Mutex::lock on something that is not a modelled static Mutex')
            tid = self.cur.tid

            def acquire():
                if mx.held is not None:
                    raise Unsupported('acquire of a held mutex (scheduler should have blocked the thread)')
                mx.held = tid
            self.cur.access('L', (mx.name, 'lock'), acquire)
            self.cur.held.add(mx.name)
            return Enum('Ok', [Opaque('guard', mx)])

        @M(r'^(?:std::sync::)?Mutex::<.*>::try_lock$', regex=True)
        def _(m, fr, a, mm):
            mx = a[0].load() if isinstance(a[0], Ref) else a[0]
            if not isinstance(mx, MutexObj):
                raise Unsupported('Mutex::try_lock on something that is not a modelled static Mutex')
            tid = self.cur.tid

            def attempt():
                if mx.held is None:
                    mx.held = tid
                    return True
                return False
            got = self.cur.access('T', (mx.name, 'lock'), attempt)
            if got:
                self.cur.held.add(mx.name)
                return Enum('Ok', [Opaque('guard', mx)])
            return Enum('Err', [Opaque('wouldblock')])

        @M(r"^<(?:std::sync::)?MutexGuard<'_, .*> as Deref(Mut)?>::deref(_mut)?$", regex=True)
        def _(m, fr, a, mm):
            g = a[0].load() if isinstance(a[0], Ref) else a[0]
            if not (isinstance(g, Opaque) and g.tag == 'guard'):
                raise Unsupported('deref of an unknown guard')
            return Ref(SharedCell([g.payload.data]), 0)

        def release(g):
            mx = g.payload
            tid = self.cur.tid

            def rel():
                if mx.held != tid:
                    raise Unsupported('release of a mutex the thread does not hold')
                mx.held = None
            self.cur.access('U', (mx.name, 'lock'), rel)
            self.cur.held.discard(mx.name)

        def drop_hook(m, fr, v):
            if isinstance(v, Opaque) and v.tag == 'guard':
                release(v)
            elif isinstance(v, Enum) and v.fields and isinstance(v.fields[0], Opaque) and v.fields[0].tag == 'guard':
                release(v.fields[0])
        self.drop_hook = drop_hook

        @M(r"^(?:std::mem::)?drop::<(?:std::sync::)?MutexGuard<'_, .*>>$", regex=True)
        def _(m, fr, a, mm):
            release(a[0])
            return []

        # ---- scalar atomics: every operation is one indivisible access (explored as sequentially consistent)
        @M(r'^(?:std::sync::atomic::)?Atomic(\w+|::<\w+>)::(load|store|swap|fetch_add|fetch_sub|compare_exchange|compare_exchange_weak)$', regex=True)
        def _(m, fr, a, mm):
            at = a[0].load() if isinstance(a[0], Ref) else a[0]
            if not isinstance(at, AtomicObj):
                raise Unsupported('atomic operation on something that is not a modelled static atomic')
            op = mm.group(2)
            cell = at.cell
            loc = (at.name, 0)
            self.cur.atomic = True
            try:
                if op == 'load':
                    return self.cur.access('R', loc, lambda: cell.raw(0))
                if op == 'store':
                    self.cur.access('W', loc, lambda: cell.raw_set(0, a[1]))
                    return []
                if op in ('swap', 'fetch_add', 'fetch_sub'):
                    def rmw():
                        old = cell.raw(0)
                        cell.raw_set(0, a[1] if op == 'swap' else m.binop('Add' if op == 'fetch_add' else 'Sub', old, a[1]))
                        return old
                    return self.cur.access('RW', loc, rmw)
                # compare_exchange(current, new, ..): Ok(old) and the store happen iff old == current
                def cas():
                    old = cell.raw(0)
                    hit = m.branch_bool(m.binop('Eq', old, a[1]))
                    if hit:
                        cell.raw_set(0, a[2])
                    return Enum('Ok' if hit else 'Err', [old])
                return self.cur.access('RW', loc, cas)
            finally:
                self.cur.atomic = False

        # ---- the clock is environment: an arbitrary instant each time it is read
        self.clock_reads = 0

        @M('SystemTime::now')
        def _(m, fr, a, mm):
            return Opaque('instant')

        @M('SystemTime::duration_since')
        def _(m, fr, a, mm):
            return Enum('Ok', [Opaque('duration')])

        @M(r'^Result::<.*>::unwrap$', regex=True)
        def _(m, fr, a, mm):
            if a[0].variant != 'Ok':
                raise Panic('unwrap on Err')
            return a[0].fields[0]

        @M('Duration::as_nanos')
        def _(m, fr, a, mm):
            self.clock_reads += 1
            return I(z3.BitVec('clock!%d' % self.clock_reads, 128), 'u128')

        @M(r'^Cell::<.*>::new$', regex=True)
        def _(m, fr, a, mm):
            return [a[0]]

        @M(r'^Cell::<.*>::get$', regex=True)
        def _(m, fr, a, mm):
            c = a[0].load() if isinstance(a[0], Ref) else a[0]
            return copyval(c[0])

        @M(r'^Cell::<.*>::set$', regex=True)
        def _(m, fr, a, mm):
            c = a[0].load() if isinstance(a[0], Ref) else a[0]
            c[0] = a[1]
            return []

        @M(r'^core::num::<impl (\w+)>::wrapping_(mul|add|sub)$', regex=True)
        def _(m, fr, a, mm):
            op = {'mul': 'Mul', 'add': 'Add', 'sub': 'Sub'}[mm.group(2)]
            return m.binop(op, a[0], a[1])

        from .stdmodel import install_std_models
        install_std_models(self)

    def one(self, name, pred=None):
        c = [f for f in self.fn.get(name, []) if '// MIR FOR CTFE' not in f.header and (pred is None or pred(f))]
        # the dump prints const fns twice (runtime MIR and "MIR FOR CTFE"): take the first
        if not c:
            raise Unsupported('fn %s not found' % name)
        return c[0]

    def _resolve(self, fr, callee):
        if callee == 'gen_priority':
            return self.one('gen_priority'), {}
        m = re.match(r'^LinearCongruentialGenerator64::<(\d+), (\d+)>::(\w+)$', callee)
        if m:
            return self.one(m.group(3)), {'A': m.group(1) + '_u64', 'C': m.group(2) + '_u64'}
        m = re.match(r'^LinearCongruentialGenerator64::<A, C>::(\w+)$', callee)
        if m:
            return self.one(m.group(1)), fr.subst
        m = re.match(r'^TreapNode::<T>::new$', callee)
        if m:
            return self.one('new', lambda f: 'TreapNode<T>' in (f.ret or '')), {}
        return None

    def _const(self, m, fr, s):
        if s in ('A', 'C') and s in fr.subst:
            return m.const(fr, fr.subst[s])
        if s == 'std::time::SystemTime::UNIX_EPOCH':
            return Opaque('epoch')
        if s.startswith('ZeroSized: {closure@'):
            return Opaque('closure', s)
        if re.match(r'^(treap_node::)?gen_priority::promoted\[\d+\]$', s):
            f = self.find_promoted(fr.fn, s)
            if 'LocalKey' in (f.ret or ''):
                return Opaque('localkey', 'RNG')
        if re.match(r'^(?:std::sync::atomic::)?Ordering::\w+$', s) or s in ('Relaxed', 'Acquire', 'Release', 'AcqRel', 'SeqCst'):
            return Opaque('ordering', s)
        mm = re.match(r'^\{(alloc\d+): (\*mut|\*const|&mut|&) ?(.*)\}$', s)
        if mm:
            if mm.group(1) not in self.statics:
                raise Unsupported('pointer to unknown allocation ' + s)
            name = self.statics[mm.group(1)][0]
            return Ref([self.shared[name]], 0)
        return None

    # ---- a world = fresh shared memory for one schedule
    def new_world(self, ctl_of):
        self.shared = {}
        for alloc, (name, size, bytes_) in self.statics.items():
            ty = self.static_ty.get(name, '')
            gen = lambda: SharedStruct([self.init_state], name, self)      # the generator: ONE u64 of state, symbolic
            mx = re.match(r'^(?:std::sync::)?Mutex<(.*)>$', ty)
            at = re.match(r'^(?:std::sync::atomic::)?Atomic<?(U64|Usize|U32|I64|Isize|I32|u64|usize|u32|i64|isize|i32)>?$', ty)
            if mx and 'LinearCongruentialGenerator64<' in mx.group(1) and size == 16:
                self.shared[name] = MutexObj(name, gen())
            elif at:
                ity = at.group(1).lower()
                hexes = re.findall(r'\b[0-9a-f]{2}\b', ' '.join(l.split('\u2502')[0] for l in bytes_.splitlines()))
                if len(hexes) != size:
                    raise Unsupported('static %s: initial bytes not understood' % name)
                val = int.from_bytes(bytes(int(h, 16) for h in hexes), 'little')
                self.shared[name] = AtomicObj(name, SharedStruct([I(val, ity)], name, self), ity)
            elif size == 8 and ('LinearCongruentialGenerator64<' in ty or not ty):
                self.shared[name] = gen()
            else:
                raise Unsupported('static %s of size %d (type %s): layout not modelled' % (name, size, ty or '?'))

    def access(self, kind, loc, fn):
        return self.cur.access(kind, loc, fn)


def thread_body(P, k):
    def run(m):
        out = []
        for _ in range(k):
            out.append(m.run(P.one('gen_priority'), [], {}))
        return out
    return run


def advance(P, ctl, body, mode):
    """re-run thread `ctl` from its start, replaying its log; -> ('yield', kind, loc, protected) | ('done', results)"""
    P.cur = ctl
    for key in [k for k in P.tls if k[0] == ctl.tid]:
        del P.tls[key]          # thread-private state is rebuilt by the re-execution
    ctl.pos = 0
    ctl.mode = mode
    ctl.held = set()
    ctl.atomic = False
    m = Machine(P)
    try:
        res = body(m)
    except Yield as y:
        return ('yield', y.kind, y.loc, y.protected)
    if mode == 'step' and ctl.mode == 'step':
        raise Unsupported('step requested but the thread had no shared access left')
    return ('done', res)


def explore_schedules(P, k, max_schedules=20000, stop_at_race=False):
    """DFS over all interleavings of the shared accesses of two threads doing k creations each"""
    body = thread_body(P, k)
    prefix = []
    out = []
    t0 = time.time()
    while True:
        P.init_state = I(z3.BitVec('s0', 64), 'u64')
        ctls = [ThreadCtl(0), ThreadCtl(1)]
        P.new_world(ctls)
        trace = []
        race = None
        results = [None, None]
        while True:
            nxt = []
            for c in ctls:
                if c.done:
                    nxt.append(None)
                    continue
                r = advance(P, c, body, 'peek')
                if r[0] == 'done':
                    c.done = True
                    results[c.tid] = r[1]
                    nxt.append(None)
                else:
                    nxt.append(r[1:])
            def blocked(i):
                kind, loc, _p = nxt[i]
                return kind == 'L' and P.shared[loc[0]].held not in (None,)
            waiting = [i for i, x in enumerate(nxt) if x is not None]
            ready = [i for i in waiting if not blocked(i)]
            if not waiting:
                break
            if not ready:
                raise Unsupported('deadlock: every unfinished thread waits for a held mutex')
            if len(waiting) == 2 and nxt[0][0] not in 'LUT' and nxt[1][0] not in 'LUT':
                (k0, l0, p0), (k1, l1, p1) = nxt[0], nxt[1]
                if l0 == l1 and (k0 != 'R' or k1 != 'R') and not (p0 & p1) and race is None:
                    race = dict(at=len(trace), accesses=[(0, k0, l0), (1, k1, l1)], schedule_prefix=[t for t, _ in trace])
            i = len(trace)
            c = prefix[i] if i < len(prefix) else 0
            if c >= len(ready):
                raise Unsupported('schedule replay mismatch')
            tid = ready[c]
            trace.append((tid, len(ready)))
            r = advance(P, ctls[tid], body, 'step')
            if r[0] == 'done':
                ctls[tid].done = True
                results[tid] = r[1]
        out.append(dict(schedule=[t for t, _ in trace], results=results, race=race))
        if stop_at_race and race is not None:
            return out
        # next schedule (DFS on the choice among ready threads)
        choices = []
        ready_counts = [n for _, n in trace]
        tr = [(prefix[i] if i < len(prefix) else 0, ready_counts[i]) for i in range(len(trace))]
        while tr and tr[-1][0] + 1 >= tr[-1][1]:
            tr.pop()
        if not tr:
            return out
        if len(out) >= max_schedules:
            raise Unsupported('more than %d schedules' % max_schedules)
        prefix = [c for c, _ in tr[:-1]] + [tr[-1][0] + 1]


class Free(ThreadCtl):
    """no scheduling: accesses go straight to memory (used for the sequential reference executions)"""
    def access(self, kind, loc, fn):
        v = fn()
        return None if kind == 'W' else v


def sequential_results(P, k, order):
    """run the 2k creations one after another (each call atomic) in the given order of thread ids, in a fresh world"""
    P.init_state = I(z3.BitVec('s0', 64), 'u64')
    P.new_world(None)
    P.tls = {}
    ctl = {0: Free(0), 1: Free(1)}
    res = {0: [], 1: []}
    for tid in order:
        P.cur = ctl[tid]
        m = Machine(P)
        res[tid].append(m.run(P.one('gen_priority'), [], {}))
    return res[0], res[1]


def outcome_violation(P, k, sched):
    """is there an initial state for which NO sequential order of the 2k calls gives these per-thread priorities?"""
    a, b = sched['results']
    alts = []
    for pos in itertools.combinations(range(2 * k), k):
        order = [0 if i in pos else 1 for i in range(2 * k)]
        ra, rb = sequential_results(P, k, order)
        conj = []
        same = True
        for x, y in list(zip(a, ra)) + list(zip(b, rb)):
            if x.sym() or y.sym():
                if not (x.sym() and y.sym() and x.v.eq(y.v)):
                    same = False
                    conj.append(x.z() == y.z())
            elif x.v != y.v:
                same = False
                conj.append(z3.BoolVal(False))
        if same:
            return None              # identical terms: this schedule IS that sequential execution, for every state
        alts.append(z3.And(conj))
    s = z3.Solver()
    s.set('timeout', 60000)
    s.add(z3.Not(z3.Or(alts)))
    r = s.check()
    if r == z3.unknown:
        raise Unsupported('z3 unknown on an outcome obligation')
    if r == z3.sat:
        mdl = s.model()
        s0 = mdl.eval(z3.BitVec('s0', 64), model_completion=True).as_long()
        ev = lambda t: mdl.eval(t.z(), model_completion=True).as_long() if t.sym() else t.v
        return dict(s0=s0, thread0=[ev(x) for x in a], thread1=[ev(x) for x in b])
    return None
