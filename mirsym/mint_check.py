"""C06 (all moduli at once): the loop-free operators of rlib_mint executed on their MIR with a SYMBOLIC modulus
2 <= M < 2^31 (the const generic `M` is an operand `const M` in the generic MIR), obligations decided by z3."""
import re, time, z3
from .core import Program, Machine, explore, Unsupported, Panic, I, Ref, Enum, Opaque, BITS, mk_int, mk_bool


class MintProgram(Program):
    def __init__(self, text):
        Program.__init__(self, text, 'mint')
        self.M = z3.BitVec('M', 32)
        self.fn = {}
        for f in self.fns:
            last = f.name.split('::')[-1]
            self.fn.setdefault(last, []).append(f)
        self.resolvers.append(MintProgram._resolve)
        self.const_resolvers.append(MintProgram._const)
        self.read_values = []
        self.written = []

        @self.model("rlib_io::Reader::<'_>::read::<i64>")
        def _(m, fr, a, _m):
            v = I(z3.BitVec('read%d' % len(self.read_values), 64), 'i64')
            self.read_values.append(v)
            return v

        @self.model('<u32 as rlib_io::Writable>::write')
        def _(m, fr, a, _m):
            x = a[0].load() if isinstance(a[0], Ref) else a[0]
            self.written.append(x)
            return []

        @self.model(r'^std::ops::RangeInclusive::<(\w+)>::new$', regex=True)
        def _(m, fr, a, _m):
            return [a[0], a[1], False]

        @self.model(r'^std::ops::RangeInclusive::<(\w+)>::contains::<\w+>$', regex=True)
        def _(m, fr, a, _m):
            rng = a[0].load() if isinstance(a[0], Ref) else a[0]
            v = a[1].load() if isinstance(a[1], Ref) else a[1]
            lo, hi = m.binop('Le', rng[0], v), m.binop('Le', v, rng[1])
            from .core import zbool
            return mk_bool(z3.And(zbool(lo), zbool(hi)))

        @self.model(r'^std::ops::Range::<(\w+)>::contains::<\w+>$', regex=True)
        def _(m, fr, a, _m):
            rng = a[0].load() if isinstance(a[0], Ref) else a[0]
            v = a[1].load() if isinstance(a[1], Ref) else a[1]
            lo, hi = m.binop('Le', rng[0], v), m.binop('Lt', v, rng[1])
            from .core import zbool
            return mk_bool(z3.And(zbool(lo), zbool(hi)))

        @self.model(r'^std::mem::swap::<(\w+)>$', regex=True)
        def _(m, fr, a, _m):
            x, y = a[0].load(), a[1].load()
            a[0].store(y)
            a[1].store(x)
            return []

        from .stdmodel import install_std_models
        install_std_models(self)

    def one(self, name, pred=None):
        c = [f for f in self.fn.get(name, []) if pred is None or pred(f)]
        if len(c) != 1:
            raise Unsupported('cannot locate a unique fn %s in rlib_mint (%d candidates)' % (name, len(c)))
        return c[0]

    def _resolve(self, fr, callee):
        m = re.match(r'^Modular::<M>::(\w+)$', callee)
        if m:
            return self.one(m.group(1), lambda f: 'fmt' not in f.name and 'Reader' not in f.header and 'Writer' not in f.header), {}
        m = re.match(r'^<Modular<M> as (?:std::ops::)?(\w+)>::(\w+)$', callee)
        if m:
            return self.one(m.group(2)), {}
        return None

    def _const(self, m, fr, s):
        if s == 'M':
            return I(self.M, 'u32')
        if re.match(r'^<Modular<M> as .*>::\w+::promoted\[\d+\]$', s):
            f = self.find_promoted(fr.fn, s)
            return m.run(f, [], fr.subst)
        return None


def _fix(r):
    return r if isinstance(r, tuple) else (r, {})


class MintCheck:
    def __init__(self, prog):
        self.P = prog
        orig = prog._resolve
        self.results = []

    def paths_of(self, fname, mkargs, pred=None):
        P = self.P
        f = P.one(fname, pred)
        M = P.M

        def body(m):
            m.assume(z3.And(z3.UGE(M, 2), z3.ULT(M, 1 << 31)))
            args, ctx = mkargs(m)
            r = m.run(f, args, {})
            return {'ret': r, 'ctx': ctx, 'args': args}
        return explore(P, body, max_paths=200)

    def prove(self, name, desc, paths, claim_of, allow_panic=None):
        """every path: no panic and PC => claim"""
        t0 = time.time()
        nq = 0
        for p in paths:
            if p['status'] != 'ok':
                s = z3.Solver(); s.add(p['pc'])
                if s.check() == z3.sat:
                    mdl = s.model()
                    self.results.append(dict(name=name, desc=desc, status='FAIL', detail='panic reachable: %s' % p['status'], model=str(mdl)[:300], time=time.time() - t0, queries=nq + 1))
                    return
                continue
            claim, extra = claim_of(p['outcome'])
            s = z3.Solver()
            s.set('timeout', 120000)
            s.add(p['pc'])
            s.add(extra)
            s.add(z3.Not(claim))
            r = s.check()
            nq += 1
            if r == z3.sat:
                self.results.append(dict(name=name, desc=desc, status='FAIL', detail='claim refuted', model=self.model(s.model()), time=time.time() - t0, queries=nq))
                return
            if r == z3.unknown:
                self.results.append(dict(name=name, desc=desc, status='UNKNOWN', detail='z3 unknown', time=time.time() - t0, queries=nq))
                return
        self.results.append(dict(name=name, desc=desc, status='PASS', paths=len(paths), time=time.time() - t0, queries=nq))

    def lemma(self, name, desc, hyp, claim):
        t0 = time.time()
        s = z3.Solver(); s.set('timeout', 120000); s.add(hyp); s.add(z3.Not(claim))
        r = s.check()
        self.results.append(dict(name=name, desc=desc, status={'unsat': 'PASS', 'sat': 'FAIL'}.get(str(r), 'UNKNOWN'), time=time.time() - t0, queries=1,
                                 model=self.model(s.model()) if r == z3.sat else None))

    def model(self, mdl):
        out = {}
        for d in mdl.decls():
            v = mdl[d]
            try:
                out[d.name()] = v.as_long()
            except Exception:
                pass
        return out

    def run_all(self):
        P, M = self.P, self.P.M
        M64 = z3.ZeroExt(32, M)

        def elem(m, nm):
            x = z3.BitVec(nm, 32)
            m.assume(z3.ULT(x, M))
            return [I(x, 'u32')], x            # struct Modular { v }

        def inner(r):
            return r[0].z()

        # ---- new: every i64 -> canonical representative
        def mk_new(m):
            v = z3.BitVec('v', 64)
            return [I(v, 'i64')], v
        paths = self.paths_of('new', mk_new)
        def claim_new(o):
            r, v = inner(o['ret']), o['ctx']
            # Euclidean remainder: t = v srem M (truncating), lifted by M when negative; shares the division term with the code
            t = z3.SRem(v, M64)
            return z3.And(z3.ULT(r, M), z3.ZeroExt(32, r) == z3.If(t < 0, t + M64, t)), []
        self.prove('new', 'new(v): representative in [0,M), congruent to v, for every i64 v and every modulus', paths, claim_new)
        # ---- add / sub / neg
        def mk2(m):
            a, x = elem(m, 'x')
            b, y = elem(m, 'y')
            return [a, b], (x, y)
        def wide(t):
            return z3.ZeroExt(32, t)
        paths = self.paths_of('add', mk2)
        self.prove('add', 'x+y: representative of the integer sum, for all x,y < M and every modulus', paths,
                   lambda o: (z3.And(z3.ULT(inner(o['ret']), M), z3.Or(wide(inner(o['ret'])) == wide(o['ctx'][0]) + wide(o['ctx'][1]),
                                                                       wide(inner(o['ret'])) + M64 == wide(o['ctx'][0]) + wide(o['ctx'][1]))), []))
        paths = self.paths_of('sub', mk2)
        self.prove('sub', 'x-y: representative of the integer difference', paths,
                   lambda o: (z3.And(z3.ULT(inner(o['ret']), M), z3.Or(wide(inner(o['ret'])) + wide(o['ctx'][1]) == wide(o['ctx'][0]),
                                                                       wide(inner(o['ret'])) + wide(o['ctx'][1]) == wide(o['ctx'][0]) + M64)), []))
        def mk1(m):
            a, x = elem(m, 'x')
            return [a], x
        paths = self.paths_of('neg', mk1)
        self.prove('neg', '-x: representative of the negation (0 stays 0)', paths,
                   lambda o: (z3.And(z3.ULT(inner(o['ret']), M), z3.Or(wide(inner(o['ret'])) + wide(o['ctx']) == M64, z3.And(inner(o['ret']) == 0, o['ctx'] == 0))), []))
        # ---- mul: three lemmas + the path obligation under their instances
        p_, m_ = z3.BitVec('p', 64), z3.BitVec('m', 64)
        self.lemma('mul-lemma-a', '31x31-bit product is non-negative in i64', [z3.ULT(z3.BitVec('x', 32), 1 << 31), z3.ULT(z3.BitVec('y', 32), 1 << 31)],
                   wide(z3.BitVec('x', 32)) * wide(z3.BitVec('y', 32)) >= 0)
        self.lemma('mul-lemma-b', 'srem = urem for a non-negative dividend and positive divisor', [p_ >= 0, m_ > 0], z3.SRem(p_, m_) == z3.URem(p_, m_))
        self.lemma('mul-lemma-c', 'a remainder modulo M < 2^31 fits a non-negative i32', [z3.ULT(m_, 1 << 31), m_ > 0, p_ >= 0],
                   z3.And(z3.ULT(z3.URem(p_, m_), 1 << 31), z3.Extract(31, 0, z3.URem(p_, m_)) >= 0))
        paths = self.paths_of('mul', mk2)
        def claim_mul(o):
            x, y = o['ctx']
            prod = wide(x) * wide(y)
            inst = [z3.SRem(prod, M64) == z3.URem(prod, M64)]     # instance of lemmas a+b
            return z3.And(z3.ULT(inner(o['ret']), M), wide(inner(o['ret'])) == z3.URem(prod, M64)), inst
        self.prove('mul', 'x*y: representative of the integer product (under the lemma instances a, b)', paths, claim_mul)
        # ---- assigning forms = binary forms (same callee in the MIR)
        for opn in ('add_assign', 'sub_assign', 'mul_assign'):
            def mk_as(m):
                a, x = elem(m, 'x')
                b, y = elem(m, 'y')
                cell = [a]
                return [Ref(cell, 0), b], (cell, x, y)
            paths = self.paths_of(opn, mk_as)
            base = opn.split('_')[0]
            ref = self.paths_of(base, mk2)
            def claim_as(o, base=base, ref=ref):
                cell, x, y = o['ctx']
                got = cell[0][0].z()
                # the result must equal what the binary operator returns on some path with a compatible condition
                return z3.Or([z3.And(z3.And(q['pc']), got == inner(q['outcome']['ret'])) for q in ref if q['status'] == 'ok']), []
            self.prove(opn, '%s leaves the same representative as the binary operator' % opn, paths, claim_as)
        # ---- Readable / Writable go through the canonical representative
        P.read_values.clear()
        def mk_read(m):
            P.read_values.clear()
            return [Opaque('reader')], None
        paths = self.paths_of('read', mk_read, lambda f: 'Reader' in f.header)
        def claim_read(o):
            v = P.read_values[-1].z() if P.read_values else None
            r = inner(o['ret'])
            t = z3.SRem(z3.BitVec('read0', 64), M64)
            return z3.And(z3.ULT(r, M), z3.ZeroExt(32, r) == z3.If(t < 0, t + M64, t)), []
        self.prove('read', 'reading a value reduces the parsed i64 to the canonical representative (for every token value and modulus)', paths, claim_read)
        def mk_write(m):
            P.written.clear()
            a, x = elem(m, 'x')
            return [Ref([a], 0), Opaque('writer')], x
        paths = self.paths_of('write', mk_write, lambda f: 'Writer' in f.header)
        self.prove('write', 'writing a value writes its representative', paths,
                   lambda o: (z3.And(len(P.written) == 1, P.written[-1].z() == o['ctx']) if P.written else z3.BoolVal(False), []))
        # ---- equality is equality of representatives
        def mk_eq(m):
            a, x = elem(m, 'x')
            b, y = elem(m, 'y')
            return [Ref([a], 0), Ref([b], 0)], (x, y)
        paths = self.paths_of('eq', mk_eq)
        from .core import zbool
        self.prove('eq', '== is equality of representatives', paths, lambda o: (zbool(o['ret']) == (o['ctx'][0] == o['ctx'][1]), []))
        return self.results
