"""Model of core::fmt for mirsym: format-argument plumbing, the compact template encoding documented at
`core::fmt::Arguments` (library/core/src/fmt/mod.rs of the pinned nightly), and the rendering of strings, chars, bools and
integers (Display, Binary, Octal, LowerHex, UpperHex) with fill / alignment / width / sign-aware zero padding.
Rendering of SYMBOLIC integers is decided only where the text length does not depend on the value (one decimal digit; binary or
hex with zero padding to at least the full bit width); everything else => Unsupported (fail-closed)."""
import re, z3
from .core import Unsupported, Panic, I, Arr, Vec, Ref, SliceRef, Enum, Opaque, BITS, mk_int, mk_bool
from .iomodel import as_slice, _load

INTS = r'(?:i8|i16|i32|i64|i128|isize|u8|u16|u32|u64|u128|usize)'


def _b(c):
    return I(c if isinstance(c, int) else ord(c), 'u8')


def _text(s):
    return [_b(c) for c in s.encode()]


class Opts:
    def __init__(self, flags=None, width=None, precision=None):
        flags = 0x20 | (3 << 29) if flags is None else flags
        self.fill = flags & 0x1fffff
        self.plus = bool(flags & (1 << 21))
        self.alternate = bool(flags & (1 << 23))
        self.zero = bool(flags & (1 << 24))
        self.dbg_hex = bool(flags & (3 << 25))
        self.align = (flags >> 29) & 3          # 0 left, 1 right, 2 center, 3 unset
        self.width = width if flags & (1 << 27) else None
        self.precision = precision if flags & (1 << 28) else None


def decode_template(tmpl, nargs):
    """-> list of ('lit', bytes) | ('arg', index, Opts)"""
    out, i, nxt = [], 0, 0
    while True:
        if i >= len(tmpl):
            raise Unsupported('format template without terminator')
        n = tmpl[i]; i += 1
        if n == 0:
            return out
        if n < 0x80:
            out.append(('lit', bytes(tmpl[i:i + n]))); i += n
        elif n == 0x80:
            ln = tmpl[i] | (tmpl[i + 1] << 8); i += 2
            out.append(('lit', bytes(tmpl[i:i + ln]))); i += ln
        elif n == 0xC0:
            out.append(('arg', nxt, Opts())); nxt += 1
        elif n > 0xC0:
            flags = width = prec = None
            if n & 1:
                flags = int.from_bytes(bytes(tmpl[i:i + 4]), 'little'); i += 4
            if n & 2:
                width = int.from_bytes(bytes(tmpl[i:i + 2]), 'little'); i += 2
            if n & 4:
                prec = int.from_bytes(bytes(tmpl[i:i + 2]), 'little'); i += 2
            if n & 8:
                nxt = int.from_bytes(bytes(tmpl[i:i + 2]), 'little'); i += 2
            if n & (16 | 32):
                raise Unsupported('dynamic width/precision in a format template')
            out.append(('arg', nxt, Opts(flags, width, prec))); nxt += 1
        else:
            raise Unsupported('format template byte %#x' % n)


def _pad(body, o, numeric, prefix_len=0):
    if o.width is None or len(body) >= o.width:
        return body
    k = o.width - len(body)
    if numeric and o.zero:
        return body[:prefix_len] + [_b('0')] * k + body[prefix_len:]
    if o.fill > 127:
        raise Unsupported('non-ASCII fill character')
    f = [_b(o.fill)]
    al = o.align if o.align != 3 else (1 if numeric else 0)
    if al == 0:
        return body + f * k
    if al == 1:
        return f * k + body
    return f * (k // 2) + body + f * (k - k // 2)


def render(m, kind, ty, val, o):
    """-> list of u8 values"""
    while isinstance(val, Ref):
        val = val.load()
    if ty in ('String', '&str', 'str', '&String', '&&str'):
        if kind != 'display':
            raise Unsupported('%s rendering of a string (quoting/escaping not modelled)' % kind)
        bs = list(val.items) if isinstance(val, Vec) else as_slice(val).values()
        if o.precision is not None:
            bs = bs[:o.precision]
        return _pad(bs, o, False)
    if ty == 'char':
        if kind != 'display':
            raise Unsupported('%s rendering of a char' % kind)
        if val.sym():
            if not m.branch_bool(mk_bool(z3.ULT(val.z(), 128))):
                raise Unsupported('symbolic non-ASCII char')
            return _pad([mk_int(z3.Extract(7, 0, val.z()), 'u8')], o, False)
        if val.v > 127:
            raise Unsupported('non-ASCII char')
        return _pad([_b(val.v)], o, False)
    if ty == 'bool':
        t = m.branch_bool(val) if not isinstance(val, bool) else val
        return _pad(_text('true' if t else 'false'), o, False)
    if ty.lstrip('&') in BITS:
        ty = ty.lstrip('&')
        signed = ty[0] == 'i'
        nb = BITS[ty]
        if kind == 'debug' and not o.dbg_hex:
            kind = 'display'
        if kind == 'display':
            if not val.sym():
                x = val.sval() if signed else val.v
                s = ('+' if o.plus and x >= 0 else '') + str(x)
                return _pad(_text(s), o, True, 1 if s[0] in '+-' else 0)
            z = val.z()
            if not m.branch_bool(mk_bool(z3.And(z >= 0, z <= 9) if signed else z3.ULE(z, 9))):
                raise Unsupported('Display of a symbolic integer with more than one digit')
            d = z3.Extract(7, 0, z) if z.size() > 8 else z
            body = ([_b('+')] if o.plus else []) + [mk_int(d + 48, 'u8')]
            return _pad(body, o, True, 1 if o.plus else 0)
        base = {'binary': 2, 'octal': 8, 'lower_hex': 16, 'upper_hex': 16, 'debug': 16}.get(kind)
        if base is None:
            raise Unsupported('integer rendering kind ' + kind)
        prefix = {2: '0b', 8: '0o', 16: '0x'}[base] if o.alternate else ''
        if not val.sym():
            x = val.v & ((1 << nb) - 1)
            s = {2: bin, 8: oct, 16: hex}[base](x)[2:]
            if kind == 'upper_hex':
                s = s.upper()
            return _pad(_text(prefix + s), o, True, len(prefix))
        if base == 8:
            raise Unsupported('octal rendering of a symbolic integer')
        per = 1 if base == 2 else 4
        nd = nb // per
        if not (o.zero and o.width is not None and o.width >= nd + len(prefix)):
            raise Unsupported('binary/hex rendering of a symbolic integer whose length depends on the value')
        z = val.z()
        digs = []
        for k in range(nd - 1, -1, -1):
            g = z3.ZeroExt(8 - per, z3.Extract(k * per + per - 1, k * per, z))
            if base == 2:
                digs.append(mk_int(g + 48, 'u8'))
            else:
                a = 55 if kind == 'upper_hex' else 87
                digs.append(mk_int(z3.If(z3.ULT(g, 10), g + 48, g + a), 'u8'))
        body = _text(prefix) + digs
        return _pad(body, o, True, len(prefix))
    raise Unsupported('rendering of a value of type ' + ty)


def format_args(m, args):
    """Opaque('fmtargs') -> list of u8 values"""
    tmpl, argv = args.payload
    if tmpl is None:
        return list(argv)
    out = []
    for piece in decode_template(tmpl, len(argv)):
        if piece[0] == 'lit':
            out.extend(_b(c) for c in piece[1])
        else:
            _, idx, o = piece
            if idx >= len(argv):
                raise Unsupported('format argument index out of range')
            kind, ty, ref = argv[idx].payload
            out.extend(render(m, kind, ty, ref, o))
    return out


def install_fmt_models(P):
    """the formatter is Opaque('formatter', sink_list); strings are Vec(is_str=True)"""
    M = P.model

    @M(r"^core::fmt::rt::Argument::<'_>::new_(display|debug|binary|octal|lower_hex|upper_hex)::<(.+)>$", regex=True)
    def _(m, fr, a, mm):
        return Opaque('fmtarg', (mm.group(1), mm.group(2), a[0]))

    @M(r"^Arguments::<'_>::new::<(\d+), (\d+)>$", regex=True)
    def _(m, fr, a, mm):
        tmpl = [b.v for b in as_slice(a[0]).values()]
        args = _load(a[1])
        return Opaque('fmtargs', (tmpl, [args.get(i) for i in range(args.n)]))

    @M(r"^Arguments::<'_>::(from_str|new_const)(::<.*>)?$", regex=True)
    def _(m, fr, a, mm):
        s = _load(a[0])
        if isinstance(s, Arr) and s.n == 1:
            s = s.get(0)
        return Opaque('fmtargs', (None, as_slice(s).values()))

    def sink_of(f):
        f = _load(f)
        if isinstance(f, Opaque) and f.tag == 'formatter':
            return f.payload
        if isinstance(f, Vec):
            return f.items
        raise Unsupported('formatting into an unknown sink')

    @M(r"^(Formatter::<'_>::write_fmt|<Formatter<'_> as (std::fmt::)?Write>::write_fmt|<String as (std::fmt::)?Write>::write_fmt)$", regex=True)
    def _(m, fr, a, mm):
        sink_of(a[0]).extend(format_args(m, a[1]))
        return Enum('Ok', [[]])

    @M(r"^(Formatter::<'_>::(write_str|pad)|<Formatter<'_> as (std::fmt::)?Write>::write_str|<String as (std::fmt::)?Write>::write_str|String::push_str)$", regex=True)
    def _(m, fr, a, mm):
        s = _load(a[1])
        sink_of(a[0]).extend(list(s.items) if isinstance(s, Vec) else as_slice(s).values())
        return [] if mm.group(1) == 'String::push_str' else Enum('Ok', [[]])

    @M(r"^(<Formatter<'_> as (std::fmt::)?Write>::write_char|<String as (std::fmt::)?Write>::write_char|Formatter::<'_>::write_char)$", regex=True)
    def _(m, fr, a, mm):
        sink_of(a[0]).extend(render(m, 'display', 'char', a[1], Opts()))
        return Enum('Ok', [[]])

    @M(r'^(std::fmt::format|alloc::fmt::format|format)$', regex=True)
    def _(m, fr, a, mm):
        return Vec(format_args(m, a[0]), True)

    @M(r'^<(String|str|&str|char|bool|' + INTS + r') as (?:std::fmt::)?(Display|Binary|LowerHex|UpperHex|Octal)>::fmt$', regex=True)
    def _(m, fr, a, mm):
        kind = {'Display': 'display', 'Binary': 'binary', 'LowerHex': 'lower_hex', 'UpperHex': 'upper_hex', 'Octal': 'octal'}[mm.group(2)]
        sink_of(a[1]).extend(render(m, kind, mm.group(1), a[0], Opts()))
        return Enum('Ok', [[]])

    @M(r'^<(' + INTS + r'|char|bool|str|String) as ToString>::to_string$', regex=True)
    def _(m, fr, a, mm):
        return Vec(render(m, 'display', mm.group(1), a[0], Opts()), True)

    @M(r'^String::(with_capacity|new)$', regex=True)
    def _(m, fr, a, mm):
        return Vec([], True)

    @M(r'^(<String as Deref>::deref|String::as_str|<String as AsRef<str>>::as_ref)$', regex=True)
    def _(m, fr, a, mm):
        return as_slice(a[0])

    @M(r'^String::push$', regex=True)
    def _(m, fr, a, mm):
        _load(a[0]).items.extend(render(m, 'display', 'char', a[1], Opts()))
        return []

    @M(r'^<Result<\(\), std::fmt::Error> as Try>::branch$', regex=True)
    def _(m, fr, a, mm):
        r = a[0]
        if r.variant == 'Ok':
            return Enum('Continue', [r.fields[0] if r.fields else []])
        return Enum('Break', [r])

    @M(r'^<Result<\(\), std::fmt::Error> as FromResidual<Result<Infallible, std::fmt::Error>>>::from_residual$', regex=True)
    def _(m, fr, a, mm):
        return a[0]

    @M(r'^slice::<impl \[String\]>::(join|concat)(::<&str>|::<String>)?$', regex=True)
    def _(m, fr, a, mm):
        parts = as_slice(a[0]).values()
        sep = as_slice(a[1]).values() if mm.group(1) == 'join' else []
        out = []
        for i, p_ in enumerate(parts):
            if i:
                out.extend(sep)
            out.extend(_load(p_).items)
        return Vec(out, True)
