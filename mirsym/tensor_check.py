"""C19 (text IO clause): Tensor written with Writable and read back with Tensor::read gives an equal tensor.
mirsym on the MIR of rlib_tensor + rlib_io; shapes are enumerated (they bound the loops), elements are symbolic."""
import re, itertools, time, z3
from .core import Machine, explore, Unsupported, Panic, I, Arr, Vec, Ref, SliceRef, Enum, Opaque, BITS, mk_int, mk_bool, mk_dec, copyval, zbool
from .iomodel import IoProgram, WriteEnv, ReadEnv, as_slice, _load


class TensorProgram(IoProgram):
    def __init__(self, io_text, tensor_text):
        IoProgram.__init__(self, io_text + "\n" + tensor_text)
        self.crate = 'tensor+io'
        self.tfn = {}
        for f in self.fns:
            if f.name.startswith('<impl at rlib/tensor/') or 'tensor/src/lib.rs' in f.name:
                self.tfn.setdefault(f.name.split('::')[-1], []).append(f)
        self.resolvers.insert(0, TensorProgram._tresolve)
        self.const_resolvers.insert(0, TensorProgram._tconst)
        M = self.model

        @M(r'^core::slice::<impl \[\w+\]>::contains$', regex=True)
        def _(m, fr, a, _m):
            sl, x = as_slice(a[0]), _load(a[1])
            r = False
            for v in sl.values():
                r = m.binop('BitOr', r, m.binop('Eq', v, x)) if not isinstance(r, bool) or r is False else r
            return r

        @M(r"^<std::slice::Iter<'_, usize> as Iterator>::product::<usize>$", regex=True)
        def _(m, fr, a, _m):
            sl, pos = a[0].payload
            acc = I(1, 'usize')
            for v in sl.values()[pos:]:
                acc = m.binop('Mul', acc, v)
            return acc

        @M(r'^core::slice::<impl \[\w+\]>::fill$', regex=True)
        def _(m, fr, a, _m):
            sl = as_slice(a[0])
            for i in range(sl.n):
                sl.set(i, a[1])
            return []

        @M(r"^<std::slice::Iter<'_, usize> as Iterator>::zip::<std::slice::Iter<'_, usize>>$", regex=True)
        def _(m, fr, a, _m):
            return Opaque('zip', [a[0].payload, a[1].payload])

        @M(r"^<Zip<std::slice::Iter<'_, usize>, std::slice::Iter<'_, usize>> as Iterator>::rposition::<\{closure@.*\}>$", regex=True)
        def _(m, fr, a, _m):
            z = _load(a[0]).payload
            (s1, p1), (s2, p2) = z
            n = min(s1.n - p1, s2.n - p2)
            clo = [f for f in self.tfn.get('{closure#0}', []) if '::write::' in f.name]
            if len(clo) != 1:
                raise Unsupported('rposition closure not found')
            for i in range(n - 1, -1, -1):
                cell = [a[1]]
                r = m.run(clo[0], [Ref(cell, 0), [Ref(s1.arr, s1.start + p1 + i), Ref(s2.arr, s2.start + p2 + i)]], fr.subst)
                if m.branch_bool(r):
                    return Enum('Some', [I(i, 'usize')])
            return Enum('None')

        @M(r'^<std::ops::Range<usize> as Iterator>::rev$', regex=True)
        def _(m, fr, a, _m):
            return Opaque('rev', [a[0]])

        @M(r'^<Rev<std::ops::Range<usize>> as IntoIterator>::into_iter$', regex=True)
        def _(m, fr, a, _m):
            return a[0]

        @M(r'^<Rev<std::ops::Range<usize>> as Iterator>::next$', regex=True)
        def _(m, fr, a, _m):
            r = _load(a[0]).payload[0]
            s0, e0 = r[0], r[1]
            if s0.sym() or e0.sym():
                raise Unsupported('symbolic range')
            if s0.v < e0.v:
                r[1] = I(e0.v - 1, 'usize')
                return Enum('Some', [I(e0.v - 1, 'usize')])
            return Enum('None')

        @M(r'^<\[usize; D\] as PartialEq>::eq$', regex=True)
        def _(m, fr, a, _m):
            x, y = _load(a[0]), _load(a[1])
            r = True
            for i in range(x.n):
                e = m.binop('Eq', x.get(i), y.get(i))
                r = e if r is True else m.binop('BitAnd', r, e)
            return r

        @M(r'^<Vec<T> as PartialEq>::eq$', regex=True)
        def _(m, fr, a, _m):
            x, y = _load(a[0]), _load(a[1])
            if len(x.items) != len(y.items):
                return False
            r = True
            for p_, q_ in zip(x.items, y.items):
                e = m.binop('Eq', p_, q_)
                r = e if r is True else m.binop('BitAnd', r, e)
            return r

        @M(r'^<&usize as Add<usize>>::add$', regex=True)
        def _(m, fr, a, _m):
            r = m.binop('AddWithOverflow', _load(a[0]), a[1])
            if m.branch_bool(r[1]):
                raise Panic('attempt to add with overflow')
            return r[0]

        @M(r'^Vec::<T>::len$', regex=True)
        def _(m, fr, a, _m):
            return I(len(_load(a[0]).items), 'usize')

        @M(r'^<Vec<T> as Index(Mut)?<usize>>::index(_mut)?$', regex=True)
        def _(m, fr, a, _m):
            v, i = _load(a[0]), a[1]
            if i.sym():
                raise Unsupported('symbolic element index')
            if i.v >= len(v.items):
                raise Panic('index out of bounds: the len is %d but the index is %d' % (len(v.items), i.v), 'index')
            return Ref(v, i.v)

    def tone(self, name, pred=None):
        c = [f for f in self.tfn.get(name, []) if pred is None or pred(f)]
        if len(c) != 1:
            raise Unsupported('cannot locate a unique fn %s in rlib_tensor (%d candidates)' % (name, len(c)))
        return c[0]

    def _tresolve(self, fr, callee):
        m = re.match(r'^Tensor::<T, D>::(\w+)$', callee)
        if m:
            return self.tone(m.group(1), lambda f: 'Formatter' not in f.header), fr.subst
        if callee == '<Tensor<T, D> as Index<[usize; D]>>::index':
            return self.tone('index'), fr.subst
        return None

    def _tconst(self, m, fr, s):
        if s == 'D' and fr is not None and 'D' in fr.subst:
            return I(int(fr.subst['D']), 'usize')
        return None


def expected_text(dims, elems):
    """documented layout: elements in row-major order; after an element, ' ' if only the last index advances, otherwise one
    newline per dimension that wraps"""
    D = len(dims)
    out = []
    idx = [0] * D
    k = 0
    total = 1
    for d in dims:
        total *= d
    while True:
        out.append(('elem', k))
        k += 1
        pos = None
        for p in range(D - 1, -1, -1):
            if idx[p] + 1 != dims[p]:
                pos = p
                break
        if pos is None:
            break
        out.append(('sep', ' ' if pos + 1 == D else '\n' * (D - pos - 1)))
        idx[pos] += 1
        for q in range(pos + 1, D):
            idx[q] = 0
    assert k == total
    return out


def check_shape(P, dims, ndig, dbg_note=''):
    """write a tensor of this shape with symbolic u8 elements (ndig decimal digits each), compare the text, read it back"""
    D = len(dims)
    total = 1
    for d in dims:
        total *= d
    res = dict(name='shape %s digits=%d' % (dims, ndig), status='PASS', queries=0, detail='')
    t0 = time.time()

    def body(m):
        elems, refs = [], []
        for e in range(total):
            ds = [z3.BitVec('e%d_%d' % (e, i), 8) for i in range(ndig)]
            for d in ds:
                m.assume(z3.ULE(d, 9))
            if ndig > 1:
                m.assume(ds[-1] != 0)
            from .core import dec_fits, dec_limit
            m.assume(dec_fits(ds, dec_limit('u8', False)))
            elems.append(mk_dec(ds, 'u8'))
            refs.append([mk_int(d + 48, 'u8') for d in reversed(ds)])
        sub = {'T': 'u8', 'D': str(D)}
        # the tensor comes from the real constructor (no assumption about the private layout)
        tensor = m.run(P.tone('from_vec'), [Arr(D, None, {i: I(v, 'usize') for i, v in enumerate(dims)}), Vec(list(elems))], sub)
        env = WriteEnv()
        m.env = env
        w, _ = P.fresh_writer(m)
        wslot = [w]
        m.run(P.tone('write'), [Ref([tensor], 0), Ref(wslot, 0)], sub)
        m.run(P.writer_fns['flush'], [Ref(wslot, 0)], {})
        sink = list(env.sink)
        # read back
        m.env = ReadEnv(sink, 0, fixed_schedule=[])
        r = P.fresh_reader(m)
        back = m.run(P.tone('read'), [Arr(D, None, {i: I(v, 'usize') for i, v in enumerate(dims)}), Ref([r], 0)], sub)
        eq = m.run(P.tone('eq'), [Ref([tensor], 0), Ref([back], 0)], sub)
        return dict(sink=sink, refs=refs, elems=elems, back=back, eq=eq)
    paths = explore(P, body, max_paths=300)
    for p in paths:
        if p['status'] != 'ok':
            return dict(res, status='FAIL', detail='panic: ' + p['status'], time=time.time() - t0, witness=dict(dims=dims))
        o = p['outcome']
        exp = []
        for kind, x in expected_text(dims, o['elems']):
            if kind == 'elem':
                exp += o['refs'][x]
            else:
                exp += [I(ord(c), 'u8') for c in x]
        sink = o['sink']
        # the property asks for the round trip, not for a particular layout: the exact text (spaces inside the last
        # dimension, one more newline per outer dimension) is NOT an obligation (another whitespace layout would be a
        # behaviour-preserving change); `exp` is kept for the witness only
        diffs = []
        back = o['back']
        bd, bv = back[0], back[1]
        if len(bv.items) != len(o['elems']):
            diffs.append(z3.BoolVal(True))
        else:
            for a, b in zip(bv.items, o['elems']):
                diffs.append(a.z() != b.z())
        diffs.append(z3.Not(zbool(o['eq'])))
        diffs = [d for d in diffs if not z3.is_false(z3.simplify(d))]
        if diffs:
            s = z3.Solver(); s.set('timeout', 60000); s.add(p['pc']); s.add(z3.Or(diffs))
            r = s.check(); res['queries'] += 1
            if r == z3.unknown:
                raise Unsupported('z3 unknown on a tensor obligation')
            if r == z3.sat:
                mdl = s.model()
                vals = [mdl.eval(e.z(), model_completion=True).as_long() for e in o['elems']]
                return dict(res, status='FAIL', detail='written text / read-back tensor differs from the specification', time=time.time() - t0,
                            witness=dict(dims=dims, elems=vals, text=''.join(chr(mdl.eval(b.z(), model_completion=True).as_long()) if b.sym() else chr(b.v) for b in sink)))
    res['time'] = time.time() - t0
    res['paths'] = len(paths)
    return res
