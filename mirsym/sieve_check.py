"""C13: sieve tables equal the arithmetic definitions (mirsym on the MIR of rlib_sieve).
The limit N is enumerated (it bounds every loop, so Sieve::new(N) executes concretely inside the interpreter); the query
arguments n and d are symbolic: table lookups become if-then-else chains over the concrete tables and the solver decides
the arithmetic characterisation for every n <= N at once."""
import re, time, z3
from .core import Program, Machine, explore, Unsupported, Panic, PathLimit, I, Vec, Ref, Enum, Opaque, BITS, mk_int, mk_bool, zbool


class SieveProgram(Program):
    def __init__(self, text):
        Program.__init__(self, text, 'sieve')
        self.fn = {}
        for f in self.fns:
            self.fn.setdefault(f.name.split('::')[-1], []).append(f)
        self.resolvers.append(SieveProgram._resolve)
        M = self.model

        @M(r'^std::vec::from_elem::<(\w+)>$', regex=True)
        def _(m, fr, a, _m):
            n = a[1]
            if n.sym():
                raise Unsupported('symbolic vector length')
            return Vec([a[0]] * n.v)

        @M(r'^Vec::<.*>::new$', regex=True)
        def _(m, fr, a, _m):
            return Vec([])

        @M(r'^Vec::<.*>::with_capacity$', regex=True)
        def _(m, fr, a, _m):
            return Vec([])

        @M(r'^Vec::<.*>::push$', regex=True)
        def _(m, fr, a, _m):
            a[0].load().items.append(a[1])
            return []

        @M(r'^Vec::<.*>::len$', regex=True)
        def _(m, fr, a, _m):
            return I(len(a[0].load().items), 'usize')

        @M(r'^<Vec<(\w+)> as Index(Mut)?<usize>>::index(_mut)?$', regex=True)
        def _(m, fr, a, mm):
            v = a[0].load()
            idx = a[1]
            n = len(v.items)
            if not idx.sym():
                if idx.v >= n:
                    raise Panic('index out of bounds: the len is %d but the index is %d' % (n, idx.v), 'index')
                return Ref(v, idx.v)
            if mm.group(2):
                raise Unsupported('write through a symbolic index')
            if not m.branch_bool(mk_bool(z3.ULT(idx.v, n))):
                raise Panic('index out of bounds (symbolic index)', 'index')
            # read at a symbolic index: if-then-else chain over the (concrete-length) table
            items = v.items
            if n > 1024:
                # large table: narrow the index to its feasible interval [lo, hi] under the path condition (binary search,
                # 2*log2(n) solver queries) and build the chain over that slice only -- exact, since lo <= idx <= hi is implied
                lo, hi = m.index_interval(idx, n)
                if hi - lo + 1 > 2048:
                    raise Unsupported('symbolic index into a table of %d entries spans %d of them' % (n, hi - lo + 1))
                items = items[lo:hi + 1]
                n = len(items)
                idx = mk_int(idx.v - lo, idx.ty)
            if all(isinstance(x, bool) for x in items):
                e = z3.BoolVal(items[-1]) if n else z3.BoolVal(False)
                for k in range(n - 2, -1, -1):
                    e = z3.If(idx.v == k, z3.BoolVal(items[k]), e)
                return Ref([mk_bool(e)], 0)
            ty = items[0].ty
            e = items[-1].z()
            for k in range(n - 2, -1, -1):
                e = z3.If(idx.v == k, items[k].z(), e)
            val = mk_int(e, ty)
            # few distinct table values: fork over them (the value then is a constant on each path, which turns the
            # divisions and comparisons that follow into operations with constants)
            distinct = sorted({x.v for x in items if not x.sym()})
            if val.sym() and len(distinct) <= 128 and all(not x.sym() for x in items):
                c = m.concretize(val, distinct)
                if c == 'other':
                    raise Unsupported('table value outside the table')
                val = I(c, ty)
            return Ref([val], 0)

        @M(r'^<(\w+) as Ord>::(max|min)$', regex=True)
        def _(m, fr, a, mm):
            c = m.binop('Lt' if mm.group(2) == 'min' else 'Gt', a[0], a[1])
            return a[0] if m.branch_bool(c) else a[1]

        @M(r'^<std::ops::Range<usize> as IntoIterator>::into_iter$', regex=True)
        def _(m, fr, a, _m):
            return a[0]

        @M(r'^<std::ops::Range<usize> as Iterator>::next$', regex=True)
        def _(m, fr, a, _m):
            r = a[0].load()
            s, e = r[0], r[1]
            if s.sym() or e.sym():
                raise Unsupported('symbolic range')
            if s.v < e.v:
                r[0] = I(s.v + 1, 'usize')
                return Enum('Some', [I(s.v, 'usize')])
            return Enum('None')

        from .stdmodel import install_std_models
        install_std_models(self)

    def one(self, name):
        c = self.fn.get(name, [])
        if len(c) != 1:
            raise Unsupported('cannot locate a unique fn %s in rlib_sieve (%d candidates)' % (name, len(c)))
        return c[0]

    def _resolve(self, fr, callee):
        m = re.match(r'^Sieve::(\w+)$', callee)
        if m:
            return self.one(m.group(1)), {}
        m = re.match(r"^<PrimeIter<'_> as Iterator>::next$", callee)
        if m:
            return self.one('next'), {}
        return None


def check_limit(P, N, do_factorize=True, fact_lo=1, tables=True, windows=None):
    """-> dict(records=[...]) for one limit N; windows = [(lo, hi), ...] restricts the symbolic n to those intervals (default: all of 0..=N)"""
    windows = windows or [(0, N)]
    out = []
    t0 = time.time()
    m0 = Machine(P)
    m0.max_steps = max(m0.max_steps, 200 * (N + 10))
    sieve = m0.run(P.one('new'), [I(N, 'usize')], {})
    build_steps = m0.steps
    sref = Ref([sieve], 0)
    # only the public API is used below (the struct layout is the library's business)
    pv = Machine(P).run(P.one('primes'), [sref], {})
    primes = pv.load() if isinstance(pv, Ref) else pv
    nq = 0

    def solve(conds, timeout=60000):
        s = z3.Solver(); s.set('timeout', timeout); s.add(conds)
        r = s.check()
        if r == z3.unknown:
            raise Unsupported('z3 unknown on a sieve obligation')
        return s.model() if r == z3.sat else None

    # ---- 1/2: smallest prime factor and primality, n and d symbolic
    for (wlo, whi) in (windows if N >= 2 and tables else []):
        n = z3.BitVec('n', 32)
        dom = [n >= max(2, wlo), n <= min(N, whi)]

        def body(m):
            for c in dom:
                m.assume(c)
            p = m.run(P.one('min_prime'), [sref, I(n, 'i32')], {})
            ip = m.run(P.one('is_prime'), [sref, I(n, 'i32')], {})
            return (p, ip)
        for path in explore(P, body, max_paths=400):
            if path['status'] != 'ok':
                mdl = solve(path['pc'])
                out.append(dict(name='N=%d min_prime/is_prime' % N, status='FAIL', detail=path['status'], witness=dict(N=N, n=mdl.eval(n, model_completion=True).as_long() if mdl else None)))
                continue
            p, ip = path['outcome']
            pz = p.z()
            d = z3.BitVec('d', 32)
            bad = z3.Or(pz < 2, pz > n, z3.SRem(n, z3.If(pz == 0, z3.BitVecVal(1, 32), pz)) != 0,
                        z3.And(d >= 2, d < pz, z3.SRem(n, d) == 0),
                        z3.Xor(zbool(ip), pz == n))
            mdl = solve(path['pc'] + [bad]); nq += 1
            if mdl is not None:
                nv = mdl.eval(n, model_completion=True).as_long()
                out.append(dict(name='N=%d min_prime/is_prime' % N, status='FAIL', detail='table entry is not the least prime factor, or primality flag disagrees',
                                witness=dict(N=N, n=nv)))
    # primality at 0 and 1 (concrete calls)
    for k in (0, 1):
        if k <= N:
            mk = Machine(P)
            r = mk.run(P.one('is_prime'), [sref, I(k, 'i32')], {})
            if r is not False:
                out.append(dict(name='N=%d is_prime(%d)' % (N, k), status='FAIL', detail='%d reported prime' % k, witness=dict(N=N, n=k)))
    # ---- 3: prime list (a concrete table once N is fixed): strictly increasing, entries prime, complete
    pl = [x.sval() for x in primes.items]
    comp = bytearray(N + 2)
    for k in range(2, int(N ** 0.5) + 1):
        if not comp[k]:
            comp[k * k::k] = b'\x01' * len(comp[k * k::k])
    want = [k for k in range(2, N + 1) if not comp[k]]
    if pl != want:
        diff = sorted(set(pl) ^ set(want))
        out.append(dict(name='N=%d primes()' % N, status='FAIL', detail='prime list differs from the primes <= N (first difference %s)' % (diff[:3] or 'order'), witness=dict(N=N, n=(diff or [0])[0])))
    # ---- 4: factorisation, n symbolic
    npaths = 0
    for (wlo, whi) in (windows if do_factorize and N >= 1 else []):
        n = z3.BitVec('n', 32)

        def body(m):
            m.assume(n >= max(fact_lo, wlo))
            m.assume(n <= min(N, whi))
            it = m.run(P.one('factorize'), [sref, I(n, 'i32')], {})
            cell = [it]
            fs = []
            for _ in range(12):
                r = m.run(P.one('next'), [Ref(cell, 0)], {})
                if r.variant == 'None':
                    return fs
                fs.append(r.fields[0])
            raise Unsupported('factorisation longer than 12 prime powers')
        for path in explore(P, body, max_paths=4000):
            npaths += 1
            if path['status'] != 'ok':
                mdl = solve(path['pc'])
                out.append(dict(name='N=%d factorize' % N, status='FAIL', detail=path['status'], witness=dict(N=N, n=mdl.eval(n, model_completion=True).as_long() if mdl else None)))
                continue
            fs = path['outcome']
            prod = z3.BitVecVal(1, 64)
            bad = []
            last = None
            for pe in fs:
                p, e = pe[0], pe[1]
                if e.sym():
                    raise Unsupported('symbolic exponent')
                pw = z3.SignExt(32, p.z())
                for _ in range(e.sval()):
                    prod = prod * pw
                bad.append(p.z() < 2)
                if e.sval() < 1:
                    bad.append(z3.BoolVal(True))
                dd = z3.BitVec('dd', 32)
                bad.append(z3.And(dd >= 2, dd < p.z(), z3.SRem(p.z(), dd) == 0))     # p composite
                if last is not None:
                    bad.append(p.z() <= last)
                last = p.z()
            bad.append(prod != z3.SignExt(32, n))
            mdl = solve(path['pc'] + [z3.Or(bad)]); nq += 1
            if mdl is not None:
                out.append(dict(name='N=%d factorize' % N, status='FAIL', detail='prime powers %s do not multiply to n / not increasing primes' % ([(str(x[0]), str(x[1])) for x in fs],),
                                witness=dict(N=N, n=mdl.eval(n, model_completion=True).as_long())))
    if not out:
        out.append(dict(name='N=%d' % N, status='PASS'))
    for r in out:
        r.update(time=time.time() - t0, queries=nq, paths=npaths, build_steps=build_steps)
    return out
