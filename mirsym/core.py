"""mirsym: path-wise symbolic execution of rustc MIR (the `-Zunpretty=mir` text) with z3.

Values that steer control flow are decided by the solver at each switchInt/assert: a branch is taken only if it is
feasible under the path condition, both sides are explored (DFS by re-execution along a decision prefix).
Any construct outside the supported subset raises Unsupported => the run is INCONCLUSIVE (fail-closed)."""
import re, os, subprocess, time
import z3

BITS = {'u8': 8, 'i8': 8, 'u16': 16, 'i16': 16, 'u32': 32, 'i32': 32, 'u64': 64, 'i64': 64,
        'u128': 128, 'i128': 128, 'usize': 64, 'isize': 64, 'char': 32, 'bool': 1}
INT_TYPES = set(BITS) - {'bool'}


class Unsupported(Exception):
    pass


class Panic(Exception):
    def __init__(self, msg, kind='panic'):
        Exception.__init__(self, msg)
        self.kind = kind


class PathLimit(Exception):
    pass


# ------------------------------------------------------------------ values
class I:
    """integer value: python int (normalised, unsigned representation) or z3 bit-vector.
    Optional decimal-structure annotation `dec` = [d_0, d_1, ...] (8-bit digit terms, each assumed <= 9, least significant
    first) stating value = sum d_i * 10^i without wrap-around; `negof` = the annotated magnitude of a negative value."""
    __slots__ = ('v', 'ty', 'dec', 'negof', 'scaled')

    def __init__(self, v, ty, dec=None, negof=None):
        self.scaled = None      # (k, x): this value is k * x for a decimal-annotated x (kept for table lookups indexed by digits)
        if isinstance(v, int):
            v &= (1 << BITS[ty]) - 1
        self.v = v
        self.ty = ty
        self.dec = dec
        self.negof = negof

    def sym(self):
        return not isinstance(self.v, int)

    def z(self):
        return self.v if self.sym() else z3.BitVecVal(self.v, BITS[self.ty])

    def signed(self):
        return self.ty[0] == 'i'

    def sval(self):
        b = BITS[self.ty]
        return self.v - (1 << b) if self.signed() and self.v >> (b - 1) else self.v

    def __repr__(self):
        return "%s_%s" % (self.sval() if not self.sym() else self.v, self.ty)


def mk_int(v, ty):
    """build an I from a z3 term, folding constants"""
    if not isinstance(v, int):
        v = z3.simplify(v)
        if z3.is_bv_value(v):
            v = v.as_long()
    return I(v, ty)


def mk_dec(digits, ty):
    """the integer whose decimal digits (least significant first) are the given 8-bit terms"""
    bits = BITS[ty]
    if not digits:
        return I(0, ty)
    total = None
    for i, d in enumerate(digits):
        t = z3.ZeroExt(bits - 8, d) * z3.BitVecVal(10 ** i, bits)
        total = t if total is None else total + t
    return I(z3.simplify(total), ty, dec=list(digits))


def dec_limit(ty, neg=False):
    bits = BITS[ty]
    if neg:
        return 1 << (bits - 1)
    return (1 << bits) - 1 if ty[0] == 'u' else (1 << (bits - 1)) - 1


def dec_fits(digits, lim):
    """z3 condition: the number with these digits (least significant first, each <= 9) is <= lim  (lexicographic on digits)"""
    ld = [int(c) for c in reversed(str(lim))]
    n = len(digits)
    if n < len(ld):
        return z3.BoolVal(True)
    # digits beyond the length of lim must be zero
    conds = [digits[i] == 0 for i in range(len(ld), n)]
    le = z3.BoolVal(True)           # comparison of the low len(ld) digits, built from the least significant end
    for i in range(len(ld)):
        le = z3.Or(z3.ULT(digits[i], ld[i]), z3.And(digits[i] == ld[i], le))
    return z3.And(conds + [le]) if conds else le


def as_digit(b):
    """if the I value is a zero-extension of an 8-bit term (or a small constant) return that 8-bit term"""
    if not b.sym():
        return z3.BitVecVal(b.v, 8) if b.v <= 9 else None
    t = b.v
    if z3.is_app_of(t, z3.Z3_OP_ZERO_EXT) and t.arg(0).size() == 8:
        return t.arg(0)
    if z3.is_app_of(t, z3.Z3_OP_CONCAT) and t.num_args() == 2 and z3.is_bv_value(t.arg(0)) and t.arg(0).as_long() == 0 and t.arg(1).size() == 8:
        return t.arg(1)
    if t.size() == 8:
        return t
    return None


def mk_bool(b):
    if isinstance(b, bool):
        return b
    b = z3.simplify(b)
    if z3.is_true(b):
        return True
    if z3.is_false(b):
        return False
    return b


def zbool(b):
    return z3.BoolVal(b) if isinstance(b, bool) else b


def bnot(b):
    return (not b) if isinstance(b, bool) else mk_bool(z3.Not(b))


class Arr:
    """fixed-size array with sparse contents"""
    __slots__ = ('n', 'd', 'default')

    def __init__(self, n, default, d=None):
        self.n, self.default, self.d = n, default, d if d is not None else {}

    def get(self, i):
        if not (0 <= i < self.n):
            raise Panic('array index %d out of bounds (len %d)' % (i, self.n))
        v = self.d.get(i)
        return self.default if v is None else v

    def set(self, i, v):
        if not (0 <= i < self.n):
            raise Panic('array index %d out of bounds (len %d)' % (i, self.n))
        self.d[i] = v

    def __getitem__(self, i):
        return self.get(i)

    def __setitem__(self, i, v):
        self.set(i, v)


class Vec:
    """Vec<T> / String: python list of element values"""
    __slots__ = ('items', 'is_str')

    def __init__(self, items=None, is_str=False):
        self.items = items if items is not None else []
        self.is_str = is_str

    def get(self, i):
        if not (0 <= i < len(self.items)):
            raise Panic('index %d out of bounds (len %d)' % (i, len(self.items)))
        return self.items[i]

    def set(self, i, v):
        if not (0 <= i < len(self.items)):
            raise Panic('index %d out of bounds (len %d)' % (i, len(self.items)))
        self.items[i] = v

    @property
    def n(self):
        return len(self.items)

    def __getitem__(self, i):
        return self.get(i)

    def __setitem__(self, i, v):
        self.set(i, v)


class Ref:
    __slots__ = ('c', 'k')

    def __init__(self, c, k):
        self.c, self.k = c, k

    def load(self):
        return self.c[self.k]

    def store(self, v):
        self.c[self.k] = v


class SliceRef:
    """fat pointer: elements start..start+n of an Arr / Vec"""
    __slots__ = ('arr', 'start', 'n')

    def __init__(self, arr, start, n):
        self.arr, self.start, self.n = arr, start, n

    def get(self, i):
        if not (0 <= i < self.n):
            raise Panic('slice index %d out of bounds (len %d)' % (i, self.n))
        return self.arr.get(self.start + i)

    def set(self, i, v):
        if not (0 <= i < self.n):
            raise Panic('slice index %d out of bounds (len %d)' % (i, self.n))
        self.arr.set(self.start + i, v)

    def __getitem__(self, i):
        return self.get(i)

    def __setitem__(self, i, v):
        self.set(i, v)

    def values(self):
        return [self.arr.get(self.start + i) for i in range(self.n)]


class Enum:
    __slots__ = ('variant', 'fields')

    def __init__(self, variant, fields=None):
        self.variant, self.fields = variant, fields if fields is not None else []

    def __getitem__(self, k):
        return self.fields[k]

    def __setitem__(self, k, v):
        self.fields[k] = v

    def __repr__(self):
        return "%s(%s)" % (self.variant, ','.join(map(repr, self.fields)))


class Clo(list):
    """a closure value: its captures, tagged with the closure's source span (so that generic `F: Fn..` parameters can be called)"""
    def __init__(self, items, loc, home=None):
        list.__init__(self, items)
        self.loc = loc
        self.home = home        # the function whose body created the closure


class Opaque:
    """a value the interpreter only passes around (Box<dyn Read>, closures' environments...)"""
    def __init__(self, tag, payload=None):
        self.tag, self.payload = tag, payload

    def __repr__(self):
        return "<%s>" % self.tag


DISCR = {'None': 0, 'Some': 1, 'Ok': 0, 'Err': 1, 'Less': -1, 'Equal': 0, 'Greater': 1, 'Continue': 0, 'Break': 1}


def copyval(v):
    if isinstance(v, Clo):
        return Clo([copyval(x) for x in v], v.loc, v.home)
    if isinstance(v, list):
        return [copyval(x) for x in v]
    if isinstance(v, Arr):
        return v.clone() if hasattr(v, 'clone') else Arr(v.n, v.default, dict(v.d))
    if isinstance(v, Enum):
        return Enum(v.variant, [copyval(x) for x in v.fields])
    return v


# ------------------------------------------------------------------ MIR text -> structures
def split_top(s, sep=','):
    """split at top-level separators; (), [], {}, <> nest ('->' is not a bracket); string literals are opaque"""
    out, depth, cur, instr, i = [], 0, [], False, 0
    n = len(s)
    while i < n:
        ch = s[i]
        if ch == '"' and (i == 0 or s[i - 1] != '\\'):
            instr = not instr
        if not instr:
            if ch in '([{<':
                depth += 1
            elif ch in ')]}':
                depth -= 1
            elif ch == '>' and not (i > 0 and s[i - 1] == '-'):
                depth -= 1
            if ch == sep and depth == 0:
                out.append(''.join(cur).strip())
                cur = []
                i += 1
                continue
        cur.append(ch)
        i += 1
    t = ''.join(cur).strip()
    if t:
        out.append(t)
    return out


class Fn:
    def __init__(self, name, header):
        self.name, self.header = name, header
        self.types = {}
        self.blocks = {}
        self.nargs = 0
        self.ret = None
        self.argnames = []
        self.parsed = {}


def parse_mir(text):
    fns = []
    cur = None
    bb = None
    pending_asm = None
    for line in text.split('\n'):
        if line.startswith('fn ') and pending_asm is None:
            m = re.match(r'fn (.*?)\((.*)\) -> (.*) \{$', line)
            if not m:
                raise Unsupported('fn header ' + line)
            cur = Fn(m.group(1), line)
            args = split_top(m.group(2))
            cur.nargs = len(args)
            for a in args:
                if ': ' in a:
                    n, t = a.split(': ', 1)
                    cur.types[n] = t
                    cur.argnames.append(n)
            cur.ret = m.group(3)
            fns.append(cur)
            bb = None
            continue
        m = re.match(r'^const (.*::promoted\[\d+\]): (.*) = \{$', line)
        if m:
            cur = Fn(m.group(1), line)
            cur.ret = m.group(2)
            fns.append(cur)
            bb = None
            continue
        m = re.match(r'^const (.*): ([^:]+) = const (.*);$', line)
        if m:
            f = Fn(m.group(1), line)
            f.ret = m.group(2)
            f.kind = 'const-inline'
            f.value = m.group(3)
            fns.append(f)
            cur = None
            bb = None
            continue
        m = re.match(r'^(static mut|static|const) (.*): ([^:]+) = \{$', line)
        if m:
            cur = Fn(m.group(2), line)
            cur.ret = m.group(3)
            cur.kind = m.group(1)
            fns.append(cur)
            bb = None
            continue
        if cur is None:
            continue
        if line == '}':
            cur = None
            continue
        m = re.match(r'\s+let (mut )?(_\d+): (.*);$', line)
        if m:
            cur.types[m.group(2)] = m.group(3)
            continue
        m = re.match(r'\s+(bb\d+)( \(cleanup\))?: \{$', line)
        if m:
            bb = []
            cur.blocks[m.group(1)] = bb
            continue
        s = line.strip()
        if bb is not None and pending_asm is not None:
            pending_asm.append(line)
            if re.search(r'-> \[return: bb\d+, unwind[^\]]*\];$|-> unwind[^;]*;$', s):
                bb.append('\n'.join(pending_asm).strip())
                pending_asm = None
            continue
        if bb is not None and s.startswith('asm!(') and not re.search(r'-> \[return: bb\d+, unwind[^\]]*\];$', s):
            pending_asm = [s]
            continue
        if bb is not None and s and s != '}' and not s.startswith(('debug ', 'scope ', 'let ')):
            bb.append(s)
    return fns


# ---- places
def parse_place(s):
    """-> nested tuple: ('local', '_3') | ('deref', p) | ('field', p, k) | ('downcast', p, variant) | ('index', p, '_n') | ('cindex', p, k, from_end)"""
    s = s.strip()
    p, rest = _place(s, 0)
    if rest != len(s):
        raise Unsupported('place ' + s)
    return p


def _place(s, i):
    if s[i] == '_':
        j = i + 1
        while j < len(s) and s[j].isdigit():
            j += 1
        p = ('local', s[i:j])
    elif s.startswith('(*', i):
        inner, j = _place(s, i + 2)
        if s[j] != ')':
            raise Unsupported('place ' + s)
        p = ('deref', inner)
        j += 1
    elif s[i] == '(':
        inner, j = _place(s, i + 1)
        if s.startswith(' as ', j):
            k = s.index(')', j)
            p = ('downcast', inner, s[j + 4:k].strip())
            j = k + 1
        elif s[j] == '.':
            m = re.match(r'\.(\d+): ', s[j:])
            if not m:
                raise Unsupported('place ' + s)
            # skip the type up to the matching ')'
            depth, k = 0, j + m.end()
            while True:
                ch = s[k]
                if ch in '([{':
                    depth += 1
                elif ch in ')]}':
                    if depth == 0:
                        break
                    depth -= 1
                k += 1
            p = ('field', inner, int(m.group(1)))
            j = k + 1
        else:
            raise Unsupported('place ' + s)
    else:
        raise Unsupported('place ' + s)
    # postfix [ ... ]
    while j < len(s) and s[j] == '[':
        k = s.index(']', j)
        idx = s[j + 1:k]
        m = re.match(r'^(-?)(\d+) of (\d+)$', idx)
        if m:
            p = ('cindex', p, int(m.group(2)), bool(m.group(1)))
        elif re.match(r'^_\d+$', idx):
            p = ('index', p, idx)
        else:
            raise Unsupported('place index ' + s)
        j = k + 1
    return p, j


BINOPS = {'Eq', 'Ne', 'Lt', 'Le', 'Gt', 'Ge', 'Add', 'Sub', 'Mul', 'Div', 'Rem', 'BitAnd', 'BitOr', 'BitXor', 'Shl', 'Shr',
          'AddWithOverflow', 'SubWithOverflow', 'MulWithOverflow', 'AddUnchecked', 'SubUnchecked', 'MulUnchecked',
          'ShlUnchecked', 'ShrUnchecked', 'Offset', 'Cmp'}
UNOPS = {'Not', 'Neg', 'PtrMetadata'}


def parse_operand(s):
    s = s.strip()
    if s.startswith('copy '):
        return ('copy', parse_place(s[5:]))
    if s.startswith('move '):
        return ('move', parse_place(s[5:]))
    if s.startswith('const '):
        return ('const', s[6:].strip())
    if re.match(r'^[A-Za-z<][\w:<>\[\], &\']*$', s) and '::' in s:
        return ('const', s)                   # a function item passed by value is printed as its bare path
    raise Unsupported('operand ' + s)


def parse_rvalue(s):
    s = s.strip()
    if s.startswith('no_retag '):
        s = s[9:]
    m = re.match(r'^(\w+)\((.*)\)$', s)
    if m and m.group(1) in BINOPS:
        a, b = split_top(m.group(2))
        return ('binop', m.group(1), parse_operand(a), parse_operand(b))
    if m and m.group(1) in UNOPS:
        return ('unop', m.group(1), parse_operand(m.group(2)))
    if m and m.group(1) == 'discriminant':
        return ('discr', parse_place(m.group(2)))
    if m and m.group(1) == 'Len':
        return ('len', parse_place(m.group(2)))
    if s.startswith('&raw mut ') or s.startswith('&raw const '):
        rest = s.split(' ', 2)[2]
        if rest.startswith('(fake) '):        # pointer taken only for its metadata (slice length in a bounds check)
            rest = rest[7:]
        return ('ref', parse_place(rest))
    if s.startswith('&mut '):
        return ('ref', parse_place(s[5:]))
    if s.startswith('&') and not s.startswith('&&'):
        t = s[1:].strip()
        if t.startswith(('_', '(')):
            return ('ref', parse_place(t))
    m = re.match(r'^((?:copy|move|const) .*) as (.+?) \((\w+)(\(.*\))?\)$', s)
    if m:
        return ('cast', m.group(3), m.group(2).strip(), parse_operand(m.group(1)))
    m = re.match(r'^\[(.*); (\d+|[A-Z]\w*)\]$', s)
    if m and (m.group(1).startswith(('copy ', 'move ', 'const '))):
        return ('repeat', parse_operand(m.group(1)), int(m.group(2)) if m.group(2).isdigit() else m.group(2))
    if s.startswith('[') and s.endswith(']'):
        parts = split_top(s[1:-1])
        if all(p.startswith(('copy ', 'move ', 'const ')) for p in parts):
            return ('array', [parse_operand(p) for p in parts])
    if s.startswith(('copy ', 'move ', 'const ')):
        return ('use', parse_operand(s))
    if s.startswith('(') and s.endswith(')'):
        parts = split_top(s[1:-1])
        if all(p.startswith(('copy ', 'move ', 'const ')) for p in parts):
            return ('tuple', [parse_operand(p) for p in parts])
    if s == '()':
        return ('tuple', [])
    m = re.match(r'^(.*?) \{ (.*) \}$', s)
    if m:
        fields = [f.split(': ', 1)[1] for f in split_top(m.group(2))]
        return ('struct', m.group(1), [parse_operand(f) for f in fields])
    m = re.match(r'^(.*)::(\w+)\((.*)\)$', s)
    if m and not m.group(1).startswith(('copy', 'move', 'const')):
        return ('variant', m.group(1), m.group(2), [parse_operand(p) for p in split_top(m.group(3))])
    m = re.match(r'^(.*)::(\w+)$', s)
    if m:
        return ('variant', m.group(1), m.group(2), [])
    m = re.match(r'^(\w+)$', s)
    if m:
        return ('variant', '', m.group(1), [])
    m = re.match(r'^([A-Za-z_]\w*)\((.*)\)$', s)
    if m and m.group(1) not in BINOPS and m.group(1) not in UNOPS:
        parts = split_top(m.group(2))
        if all(p.strip().startswith(('copy ', 'move ', 'const ')) for p in parts):
            return ('struct', m.group(1), [parse_operand(p) for p in parts])      # tuple-struct constructor
    raise Unsupported('rvalue ' + s)


def _parse_call(s):
    """`DST = CALLEE(ARGS) -> [return: bbN, unwind ...];` | `... -> unwind continue;` | `... -> bbN;` (diverging)"""
    if ' = ' not in s or ') -> ' not in s:
        return None
    dst, rest = s.split(' = ', 1)
    # callee ends at the first '(' outside <...> / [...] / {...}
    depth, i, n = 0, 0, len(rest)
    while i < n:
        ch = rest[i]
        if ch in '<[{':
            depth += 1
        elif ch in ']}' or (ch == '>' and rest[i - 1] != '-'):
            depth -= 1
        elif ch == '(' and depth == 0:
            break
        i += 1
    if i >= n:
        return None
    callee = rest[:i].strip()
    if callee in BINOPS or callee in UNOPS or callee in ('discriminant', 'Len') or callee.startswith(('copy ', 'move ', 'const ', '&')):
        return None
    # matching ')'
    d, j, instr = 0, i, False
    while j < n:
        ch = rest[j]
        if ch == '"' and rest[j - 1] != '\\':
            instr = not instr
        if not instr:
            if ch == '(':
                d += 1
            elif ch == ')':
                d -= 1
                if d == 0:
                    break
        j += 1
    argstr, tail = rest[i + 1:j], rest[j + 1:].strip()
    m = re.match(r'^-> \[return: (bb\d+), unwind.*\];$', tail)
    ret = m.group(1) if m else None
    if not m and not re.match(r'^-> (unwind .*|bb\d+);$', tail):
        return None
    return ('call', parse_place(dst), callee, [parse_operand(a) for a in split_top(argstr)], ret)


def parse_stmt(s):
    if s.startswith(('StorageLive', 'StorageDead', 'FakeRead', 'nop', 'PlaceMention', 'Retag', 'AscribeUserType', 'Coverage', 'ConstEvalCounter', '// ')):
        return None
    if s == 'return;':
        return ('return',)
    if s == 'unreachable;':
        return ('unreachable',)
    if s.startswith('resume'):
        return ('unreachable',)
    m = re.match(r'^goto -> (bb\d+);$', s)
    if m:
        return ('goto', m.group(1))
    m = re.match(r'^switchInt\((.*)\) -> \[(.*)\];$', s)
    if m:
        arms = [a.split(': ') for a in split_top(m.group(2))]
        return ('switch', parse_operand(m.group(1)), [(k, b) for k, b in arms])
    m = re.match(r'^assert\((!?)(.*?), "(.*?)"(, .*)?\) -> \[success: (bb\d+), unwind.*\];$', s)
    if m:
        return ('assert', bool(m.group(1)), parse_operand(m.group(2)), m.group(3), m.group(5))
    m = re.match(r'^drop\((.*)\) -> \[return: (bb\d+), unwind.*\];$', s)
    if m:
        return ('drop', parse_place(m.group(1)), m.group(2))
    if s.startswith('asm!('):
        m = re.match(r'^asm!\("((?:[^"\\]|\\.)*)"(.*)\) -> \[return: (bb\d+), unwind[^\]]*\];$', s, re.S)
        if not m:
            raise Unsupported('asm statement ' + s[:80])
        ops = []
        for o in split_top(m.group(2)):
            o = o.strip()
            if not o:
                continue
            if o.startswith('options('):
                ops.append(('options', o[8:-1]))
                continue
            mo = re.match(r'^(in|out|lateout|inout|inlateout)\(("?\w+"?)\) (.*)$', o, re.S)
            if not mo:
                raise Unsupported('asm operand ' + o)
            kind, reg, rest = mo.group(1), mo.group(2).strip('"'), mo.group(3).strip()
            if kind == 'in':
                ops.append(('in', reg, parse_operand(rest)))
            elif kind in ('out', 'lateout'):
                ops.append(('out', reg, None if rest == '_' else parse_place(rest)))
            else:
                raise Unsupported('asm operand kind ' + kind)
        return ('asm', m.group(1), ops, m.group(3))
    c = _parse_call(s)
    if c is not None:
        return c
    m = re.match(r'^(.*?) = (.*);$', s)
    if m:
        return ('assign', parse_place(m.group(1)), parse_rvalue(m.group(2)))
    raise Unsupported('stmt ' + s)


# ------------------------------------------------------------------ engine
class Machine:
    def __init__(self, prog, timeout_ms=None):
        self.prog = prog            # Program
        self.solver = z3.Solver()
        timeout_ms = timeout_ms or getattr(prog, 'solver_timeout_ms', 3000)
        self.solver.set('timeout', timeout_ms)
        self.pc = []
        self.prefix = []
        self.trace = []             # list of (choice, n_choices)
        self.nq = 0                 # solver queries
        self.steps = 0
        self.max_steps = 400000
        self.env = None
        self.cache = prog.qcache    # feasibility cache keyed by decision prefix + query counter
        self.qn = 0
        self.events = []
        self.divcache = {}
        self.divterms = []

    # ---- decisions
    def decide(self, n, label=None):
        i = len(self.trace)
        c = self.prefix[i] if i < len(self.prefix) else 0
        if c >= n:
            raise Unsupported('decision replay mismatch')
        self.trace.append((c, n))
        return c

    def feasible(self, cond):
        key = (tuple(c for c, _ in self.trace), self.qn)
        self.qn += 1
        r = self.cache.get(key)
        if r is not None:
            return r
        self.nq += 1
        self.prog.nq += 1
        self.solver.push()
        self.solver.add(cond)
        t0 = time.time()
        res = self.solver.check()
        self.prog.solver_time += time.time() - t0
        self.solver.pop()
        if res == z3.unknown:
            res = cvc5_check(self.pc + [cond], self.prog)
            if res is None:
                raise Unsupported('solver returned unknown on a feasibility query (z3 and cvc5)')
        r = res == z3.sat
        self.cache[key] = r
        return r

    def assume(self, cond):
        if cond is True:
            return
        self.pc.append(cond)
        self.solver.add(cond)

    def branch_bool(self, b):
        if isinstance(b, bool):
            return b
        opts = [x for x in (True, False) if self.feasible(b if x else z3.Not(b))]
        if not opts:
            raise Unsupported('infeasible path reached')
        c = opts[self.decide(len(opts))] if len(opts) > 1 else opts[0]
        self.assume(b if c else z3.Not(b))
        return c

    def index_interval(self, iv, n):
        """-> (lo, hi): the least and greatest feasible value of the unsigned symbolic integer iv (known < n) under the path condition"""
        lo, hi = 0, n - 1
        while lo < hi:
            mid = (lo + hi) // 2
            if self.feasible(z3.ULE(iv.v, mid)):
                hi = mid
            else:
                lo = mid + 1
        least = lo
        lo, hi = least, n - 1
        while lo < hi:
            mid = (lo + hi + 1) // 2
            if self.feasible(z3.UGE(iv.v, mid)):
                lo = mid
            else:
                hi = mid - 1
        return least, lo

    def concretize(self, iv, candidates=None, limit=70000):
        """make a symbolic integer concrete by forking over its feasible values (candidates first)"""
        if not iv.sym():
            return iv.v
        vals = []
        if candidates is not None:
            vals = [k for k in candidates if self.feasible(iv.v == (k & ((1 << BITS[iv.ty]) - 1)))]
            other = self.feasible(z3.And([iv.v != (k & ((1 << BITS[iv.ty]) - 1)) for k in candidates])) if candidates else True
            allopts = vals + (['other'] if other else [])
            if not allopts:
                raise Unsupported('infeasible path reached')
            c = allopts[self.decide(len(allopts))] if len(allopts) > 1 else allopts[0]
            if c == 'other':
                self.assume(z3.And([iv.v != (k & ((1 << BITS[iv.ty]) - 1)) for k in candidates]))
            else:
                self.assume(iv.v == (c & ((1 << BITS[iv.ty]) - 1)))
            return c
        raise Unsupported('symbolic value needs concretisation without candidates')

    # ---- places
    def lookup(self, fr, p):
        """-> Ref to the slot denoted by place p"""
        k = p[0]
        if k == 'local':
            return Ref(fr.locals, p[1])
        if k == 'deref':
            inner = self.lookup(fr, p[1]).load()
            if isinstance(inner, Ref):
                return inner
            if isinstance(inner, (SliceRef, Vec, Arr)):
                return Ref([inner], 0)
            if isinstance(inner, Opaque) and inner.tag == 'box':
                return Ref(inner.payload, 0)
            raise Unsupported('deref of %r' % (inner,))
        if k == 'field':
            base = self.lookup(fr, p[1]).load()
            if isinstance(base, Enum):
                return Ref(base.fields, p[2])
            if isinstance(base, list):
                return Ref(base, p[2])
            raise Unsupported('field of %r' % (base,))
        if k == 'downcast':
            return self.lookup(fr, p[1])
        if k == 'index':
            base = self.lookup(fr, p[1]).load()
            iv = fr.locals[p[2]]
            if iv.sym():
                i = self.concretize_index(iv, base.n)
            else:
                i = iv.v
            return Ref(base, i)
        if k == 'cindex':
            base = self.lookup(fr, p[1]).load()
            i = base.n - p[2] if p[3] else p[2]
            return Ref(base, i)
        raise Unsupported('place kind ' + k)

    def concretize_index(self, iv, n):
        if n > 64:
            raise Unsupported('symbolic index into a container of %d elements' % n)
        return self.concretize(iv, list(range(n)))

    # ---- operands / rvalues
    def const(self, fr, s):
        c = self.prog.const_cache.get(s)
        if c is not None:
            return c() if callable(c) else c
        if s == 'false':
            return False
        if s == 'true':
            return True
        if s == '()':
            return []
        m = re.match(r"^(?:core::num::<impl )?(\w+)>?::BITS$", s)
        if m and m.group(1) in BITS:
            return I(BITS[m.group(1)], 'u32')
        if re.match(r'^Option::<.*>::None$', s):
            return Enum('None')
        if s.startswith('ZeroSized: '):
            return Opaque('zst', s[11:])          # closures without captures, unit-like values
        m = re.match(r"^(-?\d+)_(\w+)$", s)
        if m and m.group(2) in BITS:
            return I(int(m.group(1)), m.group(2))
        m = re.match(r"^(?:core::num::<impl )?(\w+)>?::(MIN|MAX)$", s)
        if m and m.group(1) in BITS:
            t = m.group(1)
            b = BITS[t]
            if m.group(2) == 'MAX':
                return I((1 << (b - 1)) - 1 if t[0] == 'i' else (1 << b) - 1, t)
            return I(-(1 << (b - 1)) if t[0] == 'i' else 0, t)
        m = re.match(r"^'(\\?.|\\u\{[0-9a-f]+\})'$", s)
        if m:
            c = m.group(1)
            if c.startswith('\\u'):
                return I(int(c[3:-1], 16), 'char')
            c = {'\\n': '\n', '\\r': '\r', '\\t': '\t', "\\'": "'", '\\\\': '\\', '\\0': '\0'}.get(c, c)
            return I(ord(c), 'char')
        if s.startswith('"'):
            body = bytes(s[1:s.rindex('"')], 'utf-8').decode('unicode_escape').encode('latin-1')
            return SliceRef(Arr(len(body), I(0, 'u8'), {i: I(b, 'u8') for i, b in enumerate(body)}), 0, len(body))
        if s.startswith('b"'):
            body = bytes(s[2:s.rindex('"')], 'utf-8').decode('unicode_escape').encode('latin-1')
            return Ref([Arr(len(body), I(0, 'u8'), {i: I(b, 'u8') for i, b in enumerate(body)})], 0)
        m = re.match(r'^.*::promoted\[(\d+)\]$', s)
        if m:
            v = self.prog.resolve_const(self, fr, s)       # program-specific treatment first (e.g. thread_local keys)
            if v is not None:
                return v
            f = self.prog.find_promoted(fr.fn, s)
            return self.run(f, [], fr.subst)
        # generic/associated constants are resolved by the program (e.g. `M`, `<u32 as FixedSizeInteger>::BASE_10_LEN`)
        v = self.prog.resolve_const(self, fr, s)
        if v is not None:
            return v
        # a named constant of the crate: evaluate its MIR body (const items are printed like functions)
        tail = s.split('::')[-1]
        if re.match(r'^[A-Z_][A-Z0-9_]*$', tail):
            inl = [f for f in self.prog.fns if getattr(f, 'kind', None) == 'const-inline' and f.name.split('::')[-1] == tail]
            if len(inl) == 1:
                return self.const(fr, inl[0].value)
            cands = [f for f in self.prog.fns if getattr(f, 'kind', None) == 'const' and f.name.split('::')[-1] == tail and 'promoted' not in f.name]
            if len(cands) > 1:
                # prefer the one declared inside the current function / impl
                pref = [f for f in cands if f.name.rsplit('::', 1)[0] in fr.fn.name or fr.fn.name.rsplit('::', 1)[0] in f.name]
                cands = pref or cands
            if len(cands) >= 1:
                v = self.run(cands[0], [], fr.subst)
                return v
        # a function item used as a value (e.g. passed to an iterator adaptor): callable by its path
        if re.match(r'^[\w<][\w:<>\[\], &\']*$', s) and '::' in s and self.prog.is_callable(fr, s):
            return Opaque('fnitem', s)
        raise Unsupported('const ' + s)

    def operand(self, fr, op):
        k = op[0]
        if k == 'copy':
            return copyval(self.lookup(fr, op[1]).load())
        if k == 'move':
            return self.lookup(fr, op[1]).load()
        return self.const(fr, op[1])

    def binop(self, op, a, b):
        if op == 'Offset':
            raise Unsupported('pointer offset')
        if hasattr(a, 'fp') or hasattr(b, 'fp'):
            return self.prog.float_binop(self, op, a, b)
        if isinstance(a, (bool, z3.BoolRef)) or isinstance(b, (bool, z3.BoolRef)):
            if isinstance(a, bool) and isinstance(b, bool):
                r = {'Eq': a == b, 'Ne': a != b, 'BitAnd': a and b, 'BitOr': a or b, 'BitXor': a != b,
                     'Lt': a < b, 'Le': a <= b, 'Gt': a > b, 'Ge': a >= b}.get(op)
                if r is None:
                    raise Unsupported('bool binop ' + op)
                return r
            x, y = zbool(a), zbool(b)
            if op == 'Eq': return mk_bool(x == y)
            if op in ('Ne', 'BitXor'): return mk_bool(z3.Xor(x, y))
            if op == 'BitAnd': return mk_bool(z3.And(x, y))
            if op == 'BitOr': return mk_bool(z3.Or(x, y))
            raise Unsupported('bool binop ' + op)
        if isinstance(a, Enum) and isinstance(b, Enum) and op in ('Eq', 'Ne'):
            r = a.variant == b.variant
            return r if op == 'Eq' else not r
        if not isinstance(a, I) or not isinstance(b, I):
            raise Unsupported('binop %s on %r, %r' % (op, a, b))
        ty = a.ty
        bits = BITS[ty]
        sg = a.signed()
        if not a.sym() and not b.sym():
            x, y = a.sval(), b.sval()
            if op == 'Eq': return x == y
            if op == 'Ne': return x != y
            if op == 'Lt': return x < y
            if op == 'Le': return x <= y
            if op == 'Gt': return x > y
            if op == 'Ge': return x >= y
            if op == 'Cmp': return Enum('Less' if x < y else ('Equal' if x == y else 'Greater'))
            lo, hi = (-(1 << (bits - 1)), (1 << (bits - 1)) - 1) if sg else (0, (1 << bits) - 1)
            if op in ('Add', 'AddWithOverflow', 'AddUnchecked'): r = x + y
            elif op in ('Sub', 'SubWithOverflow', 'SubUnchecked'): r = x - y
            elif op in ('Mul', 'MulWithOverflow', 'MulUnchecked'): r = x * y
            elif op == 'Div':
                if y == 0: raise Panic('attempt to divide by zero')
                r = abs(x) // abs(y) * (1 if (x < 0) == (y < 0) else -1)
            elif op == 'Rem':
                if y == 0: raise Panic('attempt to calculate the remainder with a divisor of zero')
                r = abs(x) % abs(y) * (1 if x >= 0 else -1)
            elif op == 'BitAnd': r = a.v & b.v
            elif op == 'BitOr': r = a.v | b.v
            elif op == 'BitXor': r = a.v ^ b.v
            elif op in ('Shl', 'ShlUnchecked'): r = a.v << (b.v % bits)
            elif op in ('Shr', 'ShrUnchecked'): r = (x >> (b.v % bits))
            else: raise Unsupported('binop ' + op)
            if op.endswith('WithOverflow'):
                return [I(r, ty), not (lo <= r <= hi)]
            return I(r, ty)
        # ---- decimal-structure rules (arithmetic identities on values annotated with their decimal digits; every digit is
        # assumed <= 9 in the path condition; listed in the evidence as lemmas L1-L3)
        if (a.dec is not None or a.negof is not None) and not b.sym():
            mag = a if a.dec is not None else a.negof
            if op in ('Eq', 'Ne') and b.v == 0:
                z = mk_bool(z3.And([d == 0 for d in mag.dec]))
                return z if op == 'Eq' else bnot(z)
            if op in ('Lt', 'Ge') and b.v == 0 and sg:
                # a decimal-annotated non-negative value is >= 0; a negated non-zero magnitude within range is < 0
                if a.negof is None:
                    return op == 'Ge'
                nz = mk_bool(z3.Or([d != 0 for d in mag.dec]))
                return nz if op == 'Lt' else bnot(nz)
            if op == 'MulWithOverflow' and b.v == 10:
                nd = [z3.BitVecVal(0, 8)] + list(mag.dec)
                fits = dec_fits(nd, dec_limit(ty, a.negof is not None))
                self.prog.used_lemmas.add(('mul10', bits, len(nd)))
                if a.dec is not None:
                    r = mk_dec(nd, ty)
                else:
                    m2 = mk_dec(nd, 'u' + ty[1:])
                    r = I(z3.simplify(-m2.z()), ty, negof=m2)
                return [r, bnot(mk_bool(fits))]
        if op in ('AddWithOverflow', 'SubWithOverflow') and not a.sym() and a.v == 0 and a.dec is None and a.negof is None and b.sym() and bits >= 32:
            # seed: 0 + d / 0 - d for a term d that the path condition bounds by 9 starts a decimal-annotated accumulator
            dg = as_digit(b)
            if dg is not None and (op == 'AddWithOverflow' or sg) and not self.feasible(z3.UGT(dg, 9)):
                if op == 'AddWithOverflow':
                    return [mk_dec([dg], ty), False]
                m2 = mk_dec([dg], 'u' + ty[1:])
                return [I(z3.simplify(-m2.z()), ty, negof=m2), False]
        if (a.dec is not None or a.negof is not None) and op in ('AddWithOverflow', 'SubWithOverflow'):
            mag = a if a.dec is not None else a.negof
            dg = as_digit(b)
            if dg is not None and mag.dec and z3.is_bv_value(mag.dec[0]) and mag.dec[0].as_long() == 0 and \
                    ((op == 'AddWithOverflow' and a.dec is not None) or (op == 'SubWithOverflow' and a.negof is not None)) and \
                    not self.feasible(z3.UGT(dg, 9)):
                nd = [dg] + list(mag.dec[1:])
                fits = dec_fits(nd, dec_limit(ty, a.negof is not None))
                self.prog.used_lemmas.add(('add-digit', bits, len(nd)))
                if a.dec is not None:
                    r = mk_dec(nd, ty)
                else:
                    m2 = mk_dec(nd, 'u' + ty[1:])
                    r = I(z3.simplify(-m2.z()), ty, negof=m2)
                return [r, bnot(mk_bool(fits))]
        if op in ('Ge', 'Lt', 'Gt', 'Le') and not b.sym() and a.dec is not None and not sg and b.v >= 10 and str(b.v).strip('0') == '1':
            # decimal-structure lemma L5: sum d_i 10^i >= 10^k  <=>  some digit d_j with j >= k is non-zero (digits <= 9)
            k = len(str(b.v)) - 1
            self.prog.used_lemmas.add(('cmp-pow10', k, bits, len(a.dec)))
            hi = mk_bool(z3.Or([d != 0 for d in a.dec[k:]])) if a.dec[k:] else False
            if op == 'Ge':
                return hi
            if op == 'Lt':
                return bnot(hi)
            # > 10^k: >= 10^k and not exactly 10^k
            exact = mk_bool(z3.And([d == (1 if j == k else 0) for j, d in enumerate(a.dec)])) if len(a.dec) > k else False
            gt = hi if exact is False else mk_bool(z3.And(zbool(hi), z3.Not(zbool(exact))))
            return gt if op == 'Gt' else bnot(gt)
        if op in ('MulWithOverflow', 'Mul') and not b.sym() and a.dec is not None and not sg and 2 <= b.v <= 8 and len(a.dec) <= 4 and bits >= 32:
            # small multiple of a short decimal-annotated value (an index into a digit table): no overflow, provenance kept
            r = mk_int(a.z() * b.v, ty)
            r.scaled = (b.v, a)
            return [r, False] if op == 'MulWithOverflow' else r
        if op in ('Div', 'Rem') and not sg and not b.sym() and a.dec is not None and b.v >= 10 and str(b.v).strip('0') == '1':
            # decimal-structure lemma L1: (sum_{i<n} d_i 10^i) div 10^k = sum_{i>=k} d_i 10^(i-k) and mod 10^k = sum_{i<k} d_i 10^i
            k = len(str(b.v)) - 1
            self.prog.used_lemmas.add((bits, len(a.dec)))
            if op == 'Div':
                return mk_dec(a.dec[k:], ty)
            return mk_dec(a.dec[:k], ty)
        x = a.z()
        if op in ('Shl', 'Shr', 'ShlUnchecked', 'ShrUnchecked'):
            y = b.z()
            yb = BITS[b.ty]
            if yb < bits: y = z3.ZeroExt(bits - yb, y)
            elif yb > bits: y = z3.Extract(bits - 1, 0, y)
            y = z3.URem(y, z3.BitVecVal(bits, bits)) if b.sym() else z3.BitVecVal(b.v % bits, bits)
            if op.startswith('Shl'): return mk_int(x << y, ty)
            return mk_int((x >> y) if sg else z3.LShR(x, y), ty)
        y = b.z()
        if op == 'Eq': return mk_bool(x == y)
        if op == 'Ne': return mk_bool(x != y)
        if op == 'Lt': return mk_bool((x < y) if sg else z3.ULT(x, y))
        if op == 'Le': return mk_bool((x <= y) if sg else z3.ULE(x, y))
        if op == 'Gt': return mk_bool((x > y) if sg else z3.UGT(x, y))
        if op == 'Ge': return mk_bool((x >= y) if sg else z3.UGE(x, y))
        if op in ('Add', 'AddWithOverflow', 'AddUnchecked'):
            r = mk_int(x + y, ty)
            if op != 'AddWithOverflow': return r
            ov = z3.Not(z3.And(z3.BVAddNoOverflow(x, y, sg), z3.BVAddNoUnderflow(x, y) if sg else True))
            return [r, mk_bool(ov)]
        if op in ('Sub', 'SubWithOverflow', 'SubUnchecked'):
            r = mk_int(x - y, ty)
            if op != 'SubWithOverflow': return r
            ov = z3.Not(z3.And(z3.BVSubNoUnderflow(x, y, sg), z3.BVSubNoOverflow(x, y) if sg else True))
            return [r, mk_bool(ov)]
        if op in ('Mul', 'MulWithOverflow', 'MulUnchecked'):
            r = mk_int(x * y, ty)
            if op != 'MulWithOverflow': return r
            # overflow by widening (z3's bvumul_noovfl / bvsmul_noovfl are not SMT-LIB, cvc5 cannot read them)
            if sg:
                wide = z3.SignExt(bits, x) * z3.SignExt(bits, y)
                ov = wide != z3.SignExt(bits, x * y)
            else:
                wide = z3.ZeroExt(bits, x) * z3.ZeroExt(bits, y)
                ov = z3.Extract(2 * bits - 1, bits, wide) != 0
            return [r, mk_bool(ov)]
        if op in ('Div', 'Rem') and not sg and not b.sym() and b.v > 1 and bits >= 32:
            # unsigned division by a constant d: fresh (q, r) with a = q*d + r, r < d, q <= MAX/d (sound and complete, and
            # multiplication by a constant bit-blasts to a few adders where a divider circuit does not finish)
            key = (x.get_id(), b.v)
            qr = self.divcache.get(key)
            if qr is None:
                k = len(self.divcache)
                q, r = z3.BitVec('q!%d' % k, bits), z3.BitVec('r!%d' % k, bits)
                self.assume(z3.And(x == q * y + r, z3.ULT(r, y), z3.ULE(r, x), z3.ULE(q, z3.BitVecVal(((1 << bits) - 1) // b.v, bits))))  # ULE(r, x): the sum does not wrap
                qr = (q, r)
                self.divcache[key] = qr
                self.divterms.append((x, b.v, q, r))
            return mk_int(qr[0] if op == 'Div' else qr[1], ty)
        if op == 'Div': return mk_int(x / y if sg else z3.UDiv(x, y), ty)
        if op == 'Rem': return mk_int(z3.SRem(x, y) if sg else z3.URem(x, y), ty)
        if op == 'BitAnd': return mk_int(x & y, ty)
        if op == 'BitOr': return mk_int(x | y, ty)
        if op == 'BitXor': return mk_int(x ^ y, ty)
        raise Unsupported('binop ' + op)

    def cast_int(self, v, ty):
        if isinstance(v, I) and v.dec is not None and ty[0] == 'u' and v.ty[0] == 'u' and ty in BITS:
            # an annotated value with fewer digits than the target's maximum certainly fits: the annotation survives
            if len(v.dec) < len(str((1 << BITS[ty]) - 1)) or BITS[ty] >= BITS[v.ty]:
                return mk_dec(v.dec, ty)
        if isinstance(v, (bool, z3.BoolRef)):
            if isinstance(v, bool):
                return I(int(v), ty)
            return mk_int(z3.If(v, z3.BitVecVal(1, BITS[ty]), z3.BitVecVal(0, BITS[ty])), ty)
        if not v.sym():
            return I(v.sval(), ty)
        bw, bn = BITS[v.ty], BITS[ty]
        if bn == bw: return I(v.v, ty)
        if bn < bw: return mk_int(z3.Extract(bn - 1, 0, v.v), ty)
        return mk_int(z3.SignExt(bn - bw, v.v) if v.signed() else z3.ZeroExt(bn - bw, v.v), ty)

    def rvalue(self, fr, rv):
        k = rv[0]
        if k == 'use':
            return self.operand(fr, rv[1])
        if k == 'binop':
            return self.binop(rv[1], self.operand(fr, rv[2]), self.operand(fr, rv[3]))
        if k == 'unop':
            v = self.operand(fr, rv[2])
            if rv[1] == 'Not':
                if isinstance(v, I):
                    return mk_int(~v.z(), v.ty) if v.sym() else I(~v.v, v.ty)
                return bnot(v)
            if rv[1] == 'Neg':
                return mk_int(-v.z(), v.ty) if v.sym() else I(-v.sval(), v.ty)
            if rv[1] == 'PtrMetadata':
                if isinstance(v, Ref):
                    v = v.load()
                return I(v.n, 'usize')
        if k == 'ref':
            r = self.lookup(fr, rv[1])
            tgt = r.load()
            # a reference to a slice place (*_x where _x is a fat pointer) is the fat pointer itself
            if rv[1][0] == 'deref' and isinstance(tgt, (SliceRef,)):
                return tgt
            return r
        if k == 'cast':
            kind, ty, opnd = rv[1], rv[2], rv[3]
            v = self.operand(fr, opnd)
            if kind in ('IntToFloat', 'FloatToInt', 'FloatToFloat'):
                return self.prog.float_cast(self, kind, ty, v)
            if kind == 'IntToInt':
                return self.cast_int(v, self.prog.subst_type(ty, fr.subst))
            if kind == 'PointerCoercion':
                tgt = v.load() if isinstance(v, Ref) else v
                if isinstance(tgt, Arr):
                    return SliceRef(tgt, 0, tgt.n)
                return v
            if kind in ('PtrToPtr', 'Transmute', 'PointerExposeProvenance'):
                return v
            raise Unsupported('cast kind ' + kind)
        if k == 'repeat':
            n = rv[2]
            if not isinstance(n, int):
                n = self.const(fr, n).v          # array length given by a const generic
            return Arr(n, self.operand(fr, rv[1]))
        if k == 'array':
            vals = [self.operand(fr, o) for o in rv[1]]
            return Arr(len(vals), None, dict(enumerate(vals)))
        if k in ('tuple',):
            return [self.operand(fr, o) for o in rv[1]]
        if k == 'struct':
            vals = [self.operand(fr, o) for o in rv[2]]
            if rv[1].startswith('{closure@'):
                return Clo(vals, rv[1][9:-1], fr.fn)
            return vals
        if k == 'variant':
            return Enum(rv[2], [self.operand(fr, o) for o in rv[3]])
        if k == 'discr':
            e = self.lookup(fr, rv[1]).load()
            if isinstance(e, Enum):
                if e.variant not in DISCR:
                    d = self.prog.discr_of(e.variant)
                else:
                    d = DISCR[e.variant]
                return I(d, 'isize')
            raise Unsupported('discriminant of %r' % (e,))
        if k == 'len':
            return I(self.lookup(fr, rv[1]).load().n, 'usize')
        raise Unsupported('rvalue kind ' + k)

    def _merge_diamond(self, fr, blocks, arms, cond):
        """state merging for the smallest diamonds: `if c { X } else { Y }` where X and Y are ONE statement each that differ only in
        constant operands - an assignment of a constant to the same local followed by a goto to the same block, or a call of the
        same function into the same destination returning to the same block. The two arms become one statement whose differing
        constant is the if-then-else value. Anything else: None (the caller forks as usual)."""
        d = dict(arms)
        if set(d) != {'0', 'otherwise'} and set(d) != {'0', '1'}:
            return None
        bf, bt = blocks.get(d['0']), blocks.get(d.get('1', d.get('otherwise')))
        if bf is None or bt is None:
            return None

        def ite(x, y):          # value when cond is true / false
            if isinstance(x, I) and isinstance(y, I) and x.ty == y.ty:
                return mk_int(z3.If(cond, x.z(), y.z()), x.ty)
            if isinstance(x, (bool, z3.BoolRef)) and isinstance(y, (bool, z3.BoolRef)):
                return mk_bool(z3.If(cond, zbool(x), zbool(y)))
            if isinstance(x, SliceRef) and isinstance(y, SliceRef) and x.n == y.n:
                vs = [ite(p_, q_) for p_, q_ in zip(x.values(), y.values())]
                if any(v is None for v in vs):
                    return None
                return SliceRef(Arr(x.n, I(0, 'u8'), dict(enumerate(vs))), 0, x.n)
            return None
        if len(bt) == 2 and len(bf) == 2 and bt[0][0] == bf[0][0] == 'assign' and bt[1] == bf[1] and bt[1][0] == 'goto' and bt[0][1] == bf[0][1] \
                and bt[0][1][0] == 'local' and bt[0][2][0] == bf[0][2][0] == 'use' and bt[0][2][1][0] == bf[0][2][1][0] == 'const':
            x, y = self.operand(fr, bt[0][2][1]), self.operand(fr, bf[0][2][1])
            v = ite(x, y)
            if v is None:
                return None
            self.lookup(fr, bt[0][1]).store(v)
            return bt[1][1]
        if len(bt) == 1 and len(bf) == 1 and bt[0][0] == bf[0][0] == 'call' and bt[0][1] == bf[0][1] and bt[0][2] == bf[0][2] and bt[0][4] == bf[0][4] \
                and bt[0][4] is not None and len(bt[0][3]) == len(bf[0][3]):
            argv = []
            for a, b in zip(bt[0][3], bf[0][3]):
                if a == b:
                    if a[0] == 'move':
                        argv.append(('same', a))
                        continue
                    argv.append(('same', a))
                elif a[0] == b[0] == 'const':
                    v = ite(self.operand(fr, a), self.operand(fr, b))
                    if v is None:
                        return None
                    argv.append(('val', v))
                else:
                    return None
            vals = [self.operand(fr, a) if kind == 'same' else a for kind, a in argv]
            r = self.prog.call(self, fr, bt[0][2], vals)
            self.lookup(fr, bt[0][1]).store(r)
            return bt[0][4]
        return None

    def _complete_closure(self, fr, clo, st, block):
        """rustc's MIR printer zips a closure's capture operands with the ROOT variables captured, so a closure that captures
        two places of the same variable (self.buf and self.begin) is printed with one operand only. The missing operands are the
        reference temporaries assigned right before the aggregate, in order; the number of captures is read off the closure body."""
        body = [f for f in self.prog.fns if '{closure#' in f.name and re.search(r'\(_1: (?:&mut |&)?\{closure@%s\}' % re.escape(clo.loc), f.header)]
        if not body:
            return
        txt = '\n'.join(x for b in body[0].blocks.values() for x in b)
        idx = [int(a or b) for a, b in re.findall(r'\(\(\*_1\)\.(\d+): |\(_1\.(\d+): ', txt)]
        need = (max(idx) + 1) if idx else len(clo)
        if need <= len(clo):
            return
        ops = st[2][2]
        if not ops or ops[-1][0] not in ('move', 'copy') or ops[-1][1][0] != 'local':
            raise Unsupported('closure aggregate printed with fewer captures than the closure uses')
        last = int(ops[-1][1][1][1:])
        assigned = {s2[1][1] for s2 in block if s2[0] == 'assign' and s2[1][0] == 'local'}
        for j in range(last + 1, last + 1 + need - len(clo)):
            name = '_%d' % j
            if name not in assigned or name not in fr.locals:
                raise Unsupported('closure aggregate printed with fewer captures than the closure uses (cannot recover %s)' % name)
            clo.append(fr.locals[name])

    # ---- run a function
    def run(self, f, args, subst=None):
        fr = Frame(f, subst or {})
        for i, a in enumerate(args):
            fr.locals['_%d' % (i + 1)] = a
        blocks = self.prog.parsed_blocks(f)
        bb = 'bb0'
        while True:
            nxt = None
            for st in blocks[bb]:
                self.steps += 1
                if self.steps > self.max_steps:
                    raise Unsupported('step limit')
                k = st[0]
                if k == 'assign':
                    val = self.rvalue(fr, st[2])
                    if isinstance(val, Clo):
                        self._complete_closure(fr, val, st, blocks[bb])
                    self.lookup(fr, st[1]).store(val)
                    continue
                if k == 'return':
                    return fr.locals.get('_0', [])
                if k == 'goto':
                    nxt = st[1]
                    break
                if k == 'switch':
                    v = self.operand(fr, st[1])
                    arms = st[2]
                    if isinstance(v, z3.BoolRef) and getattr(self.prog, 'merge_diamonds', False):
                        j = self._merge_diamond(fr, blocks, arms, v)
                        if j is not None:
                            nxt = j
                            break
                    if isinstance(v, bool) or isinstance(v, z3.BoolRef):
                        t = self.branch_bool(v)
                        key = '1' if t else '0'
                        tgt = None
                        for kk, b in arms:
                            if kk == key:
                                tgt = b
                        if tgt is None:
                            tgt = dict(arms)['otherwise']
                        nxt = tgt
                        break
                    ks = [int(kk) for kk, _ in arms if kk != 'otherwise']
                    if v.sym():
                        c = self.concretize(v, ks)
                        c = 'otherwise' if c == 'other' else str(c)
                    else:
                        d0 = dict(arms)
                        cands = [str(v.v), str(v.sval())]
                        if v.ty == 'isize' and v.sval() < 0:
                            # a negative enum discriminant (Ordering::Less) is printed in the width of the enum's tag
                            cands += [str(v.v & 0xff), str(v.v & 0xffff), str(v.v & 0xffffffff)]
                        c = next((x for x in cands if x in d0), 'otherwise')
                    d = dict(arms)
                    if c not in d:
                        c = 'otherwise'
                    nxt = d[c]
                    break
                if k == 'assert':
                    v = self.operand(fr, st[2])
                    if st[1]:
                        v = bnot(v)
                    if not self.branch_bool(v):
                        raise Panic('assert failed: ' + st[3][:80], 'assert')
                    nxt = st[4]
                    break
                if k == 'asm':
                    self.prog.on_asm(self, fr, st[1], st[2])
                    nxt = st[3]
                    break
                if k == 'drop':
                    self.prog.on_drop(self, fr, self.lookup(fr, st[1]).load())
                    nxt = st[2]
                    break
                if k == 'call':
                    argv = [self.operand(fr, a) for a in st[3]]
                    r = self.prog.call(self, fr, st[2], argv)
                    if st[4] is None:
                        raise Unsupported('diverging call returned: ' + st[2])
                    self.lookup(fr, st[1]).store(r)
                    nxt = st[4]
                    break
                if k == 'unreachable':
                    raise Unsupported('reached `unreachable` in ' + f.name)
                raise Unsupported('stmt kind ' + k)
            if nxt is None:
                raise Unsupported('fell off block ' + bb + ' in ' + f.name)
            bb = nxt


def smt2_of(assertions):
    s = z3.Solver()
    s.add(assertions)
    smt = "(set-logic ALL)\n" + s.to_smt2()
    # z3 prints its internal "divisor known non-zero" operators
    for a in ('bvudiv', 'bvurem', 'bvsdiv', 'bvsrem', 'bvsmod'):
        smt = smt.replace(a + '_i', a)
    return smt


def cvc5_check(assertions, prog=None, cap_s=60):
    """second opinion with bit-vectors solved as integers (divide-by-constant chains); -> z3.sat | z3.unsat | None"""
    import tempfile
    t0 = time.time()
    with tempfile.NamedTemporaryFile('w', suffix='.smt2', delete=False) as f:
        f.write(smt2_of(assertions))
        path = f.name
    try:
        out = subprocess.run(['cvc5', '--lang', 'smt2', '--solve-bv-as-int=sum', '--tlimit=%d' % (cap_s * 1000), path],
                             stdout=subprocess.PIPE, stderr=subprocess.STDOUT, text=True, timeout=cap_s + 20).stdout.strip()
    except subprocess.TimeoutExpired:
        out = 'timeout'
    finally:
        os.unlink(path)
    if prog is not None:
        prog.solver_time += time.time() - t0
        prog.n_cvc5 = getattr(prog, 'n_cvc5', 0) + 1
    if '(error' in out:
        return None
    first = out.split('\n')[0] if out else ''
    return z3.sat if first == 'sat' else (z3.unsat if first == 'unsat' else None)


class Frame:
    __slots__ = ('fn', 'locals', 'subst')

    def __init__(self, fn, subst):
        self.fn, self.locals, self.subst = fn, {}, subst


class Program:
    """parsed MIR of one crate + callee resolution + std models"""

    def __init__(self, text, crate):
        self.crate = crate
        self.fns = parse_mir(text)
        self.by_name = {}
        for f in self.fns:
            self.by_name.setdefault(f.name, []).append(f)
        self.qcache = {}
        self.const_cache = {}
        self.nq = 0
        self.solver_time = 0.0
        self.models = {}       # callee string / regex -> python function(machine, frame, args, match)
        self.model_rx = []
        self.resolvers = []    # functions (prog, frame, callee) -> (Fn, subst) | None
        self.const_resolvers = []
        self.drop_hook = None
        self.used_fns = set()
        self.used_models = set()
        self.used_lemmas = set()

    def parsed_blocks(self, f):
        if not f.parsed:
            for b, stmts in f.blocks.items():
                out = []
                for s in stmts:
                    p = parse_stmt(s)
                    if p is not None:
                        out.append(p)
                f.parsed[b] = out
        self.used_fns.add(f.name + ' -> ' + str(f.ret))
        return f.parsed

    def find_promoted(self, fn, s):
        m = re.match(r'^(.*)::promoted\[(\d+)\]$', s)
        want = 'promoted[%s]' % m.group(2)
        # promoted constants are printed right after the function they belong to, with the same path prefix
        base = fn.name
        cands = [f for f in self.fns if f.name == base + '::' + want]
        if len(cands) != 1:
            # match on the impl-relative tail (the const operand names the impl type instead of the impl span)
            tail = fn.name.split('::')[-1]
            cands = [f for f in self.fns if f.name.endswith('::' + tail + '::' + want) and f.header.split('::promoted')[0].endswith(base.split('::', 1)[-1])]
        if len(cands) != 1:
            idx = self.fns.index(fn)
            cands = []
            for g in self.fns[idx + 1:]:
                if '::promoted[' not in g.name:
                    break
                if g.name.endswith(want):
                    cands.append(g)
        if len(cands) != 1:
            raise Unsupported('promoted lookup ' + s)
        return cands[0]

    def subst_type(self, ty, subst):
        return subst.get(ty, ty)

    def resolve_const(self, m, fr, s):
        for r in self.const_resolvers:
            v = r(self, m, fr, s)
            if v is not None:
                return v
        return None

    def discr_of(self, variant):
        raise Unsupported('discriminant of variant ' + variant)

    def float_binop(self, m, op, a, b):
        raise Unsupported('floating-point operation ' + op)

    def float_cast(self, m, kind, ty, v):
        raise Unsupported('cast kind ' + kind)

    def on_asm(self, m, fr, template, operands):
        raise Unsupported('inline assembly')

    def on_drop(self, m, fr, v):
        if self.drop_hook:
            self.drop_hook(m, fr, v)

    def model(self, pattern, regex=False):
        def deco(fn):
            if regex:
                self.model_rx.append((re.compile(pattern), fn))
            else:
                self.models[pattern] = fn
            return fn
        return deco

    def is_callable(self, fr, callee):
        try:
            for r in self.resolvers:
                if r(self, fr, callee):
                    return True
        except Unsupported:
            return False
        return callee in self.models or any(rx.match(callee) for rx, _ in self.model_rx)

    def call(self, m, fr, callee, args):
        for r in self.resolvers:
            hit = r(self, fr, callee)
            if hit:
                f, subst = hit
                return m.run(f, args, subst)
        fn = self.models.get(callee)
        if fn:
            self.used_models.add(callee)
            return fn(m, fr, args, None)
        # a private free function / helper of the crate called by its path
        if re.match(r'^[A-Za-z_][\w:]*$', callee):
            tail = callee.split('::')[-1]
            c = [f for f in self.fns if getattr(f, 'kind', None) is None and '{closure' not in f.name and 'promoted' not in f.name and (f.name == callee or f.name.endswith('::' + callee) or f.name == tail)]
            if len(c) == 1 and len(c[0].argnames) == len(args):
                return m.run(c[0], args, fr.subst if fr is not None else {})
        for rx, fn in self.model_rx:
            mm = rx.match(callee)
            if mm:
                self.used_models.add(rx.pattern)
                return fn(m, fr, args, mm)
        raise Unsupported('call ' + callee)


def explore(prog, body, max_paths=200000, timeout_s=None):
    """DFS over all decision sequences. `body(machine)` runs one path and returns its outcome record.
    yields dicts: {pc, outcome, status, trace}"""
    prefix = []
    out = []
    t0 = time.time()
    prog.qcache = {}      # feasibility cache is only valid within one exploration (same body, same decision tree)
    while True:
        m = Machine(prog)
        m.prefix = prefix
        status, outcome = 'ok', None
        try:
            outcome = body(m)
        except Panic as e:
            status = 'panic: ' + str(e)
        out.append({'pc': list(m.pc), 'outcome': outcome, 'status': status, 'trace': list(m.trace), 'events': m.events,
                    'machine': m})
        tr = m.trace
        while tr and tr[-1][0] + 1 >= tr[-1][1]:
            tr.pop()
        if not tr:
            return out
        if len(out) >= max_paths:
            raise PathLimit('more than %d paths' % max_paths)
        if timeout_s and time.time() - t0 > timeout_s:
            raise PathLimit('exploration time limit %ds' % timeout_s)
        prefix = [c for c, _ in tr[:-1]] + [tr[-1][0] + 1]


def dump_mir(repo, crate_dir, outdir, debug_assertions, tag):
    """regenerate the MIR text from the current working tree (nightly rustc -Zunpretty=mir)"""
    os.makedirs(outdir, exist_ok=True)
    out = os.path.join(outdir, '%s_%s.mir' % (os.path.basename(crate_dir), tag))
    env = dict(os.environ)
    env['CARGO_TARGET_DIR'] = os.path.join(outdir, 'target_' + tag)
    env['CARGO_NET_OFFLINE'] = 'true'
    # force re-emission without touching /repo: drop this crate's fingerprints in our private target dir
    import glob, shutil
    for d in glob.glob(os.path.join(env['CARGO_TARGET_DIR'], 'debug', '.fingerprint', 'rlib_%s-*' % os.path.basename(crate_dir))):
        shutil.rmtree(d, ignore_errors=True)
    cmd = ['cargo', '+nightly', 'rustc', '--offline', '--lib', '--', '-Zunpretty=mir',
           '-C', 'debug-assertions=' + ('on' if debug_assertions else 'off'), '-C', 'overflow-checks=on']
    p = subprocess.run(cmd, cwd=os.path.join(repo, crate_dir), env=env, stdout=subprocess.PIPE, stderr=subprocess.PIPE, text=True)
    if p.returncode != 0 or not p.stdout.strip():
        raise Unsupported('MIR dump failed: ' + p.stderr[-400:])
    with open(out, 'w') as f:
        f.write(p.stdout)
    return p.stdout
