"""Generic std models shared by all mirsym programs: iterator protocol (ranges, slice iterators, adaptors with closures,
consumers), Option combinators, a few slice/Vec accessors, RefCell. Installed AFTER a program's own models, so the specific
ones keep precedence; these fill the gaps that refactored code tends to reach for.

Closures are real code: an adaptor/consumer calls the closure's MIR body (looked up by its source span in the callee's generic
arguments). Loop bounds must be concrete (ranges/slices of concrete length); everything else => Unsupported (fail-closed)."""
import re, z3
from .core import Unsupported, Panic, I, Arr, Vec, Ref, SliceRef, Enum, Opaque, Clo, BITS, mk_int, mk_bool, copyval


def _load(x):
    while isinstance(x, Ref):
        x = x.load()
    return x


def _load1(x):
    return x.load() if isinstance(x, Ref) else x


def as_slice(x):
    x = _load(x)
    if isinstance(x, SliceRef):
        return x
    if isinstance(x, (Arr, Vec)):
        return SliceRef(x, 0, x.n)
    raise Unsupported('not a slice: %r' % (x,))


class FnSpec:
    """what an `F` generic argument denotes: a closure (by source span) or a path to a function"""
    def __init__(self, kind, what):
        self.kind, self.what = kind, what


def fn_specs(generics):
    out = []
    for m in re.finditer(r'\{closure@([^}]*)\}|fn\([^{}]*\)(?: -> [^{}]*)? \{([^{}]+)\}', generics or ''):
        out.append(FnSpec('closure', m.group(1)) if m.group(1) else FnSpec('path', m.group(2)))
    return out


class Caller:
    def __init__(self, P):
        self.P = P

    def closure_fn(self, loc, fr=None, args=None, home=None):
        c = [f for f in self.P.fns if '{closure#' in f.name and ('{closure@%s}' % loc) in f.header.split(')')[0] + ')']
        c = [f for f in c if re.search(r'\(_1: (?:&mut |&)?\{closure@%s\}' % re.escape(loc), f.header)]
        if len(c) > 1 and fr is not None:
            # closures written inside a macro share their span across the macro's instantiations: take the one nested in the caller
            parent = fr.fn.name
            while parent:
                d = [f for f in c if f.name.startswith(parent + '::{closure')]
                if len(d) >= 1:
                    c = d if len(d) == 1 else [f for f in d if f.name.count('{closure') == parent.count('{closure') + 1] or d
                    break
                if '::{closure' not in parent:
                    break
                parent = parent.rsplit('::{closure', 1)[0]
        if len(c) > 1 and args is not None:
            # same span, same enclosing name (macro instantiated at several types): choose by the types of the arguments
            def fits(f):
                ps = [f.types.get(a, '') for a in f.argnames[1:]]
                if len(ps) != len(args):
                    return False
                for t, v in zip(ps, args):
                    v = _load(v)
                    if isinstance(v, I) and t.replace('&', '').replace('mut ', '').strip() != v.ty:
                        return False
                return True
            d = [f for f in c if fits(f)]
            if d:
                c = d
        hfn = home if home is not None else (fr.fn if fr is not None else None)
        if len(c) > 1 and hfn is not None and hfn in self.P.fns:
            # identical names and headers (a macro instantiated at several types under one impl span): the dump prints a function's
            # closures right after it, so take the first candidate that follows the calling function
            pi = self.P.fns.index(hfn)
            after = [f for f in c if self.P.fns.index(f) > pi]
            if after:
                first = min(after, key=lambda f: self.P.fns.index(f))
                between = self.P.fns[pi + 1:self.P.fns.index(first)]
                if all('{closure' in g.name or 'promoted' in g.name for g in between):
                    c = [first]
        if len(c) > 1 and len({tuple(x for b in f.blocks.values() for x in b) for f in c}) == 1:
            c = c[:1]          # textually identical bodies
        if len(c) != 1:
            raise Unsupported('closure %s not found in the MIR (%d candidates)' % (loc, len(c)))
        return c[0]

    def call_value(self, m, fr, fval, args):
        """call a function VALUE: a closure (tagged with its span), a captureless closure or a function item"""
        v = _load1(fval)
        if isinstance(v, Clo):
            return self.call(m, fr, FnSpec('closure', v.loc), v, args, home=v.home)
        if isinstance(v, Opaque) and v.tag == 'zst' and isinstance(v.payload, str) and v.payload.startswith('{closure@'):
            return self.call(m, fr, FnSpec('closure', v.payload[9:-1]), v, args)
        if isinstance(v, Opaque) and v.tag == 'fnitem':
            return self.P.call(m, fr, v.payload, args)
        raise Unsupported('call of a function value that is not a known closure or function item: %r' % (v,))

    def call_merged(self, m, fr, spec, clo, args, home=None, limit=8):
        """call a closure whose only inputs are immutable scalars and shared captures, exploring ITS OWN branches in a nested
        machine and merging the results into if-then-else values (state merging for pure closures: keeps a per-element branch such as
        `if self.test(i) { '1' } else { '0' }` from doubling the number of paths for every element). Falls back to a plain call whenever
        the closure is not obviously pure or the results do not have one mergeable shape."""
        from .core import Machine
        if spec.kind != 'closure' or not all(isinstance(_load1(a), (I, bool)) or isinstance(a, I) for a in args):
            return self.call(m, fr, spec, clo, args, home)
        f = self.closure_fn(spec.what, fr, args, home if home is not None else getattr(clo, 'home', None))
        # purity (syntactic): no local of a `&mut` type besides the closure itself, no assignment through the captures
        stmts = [x for b in f.blocks.values() for x in b]
        if any(t.startswith('&mut') for k_, t in f.types.items() if k_ != '_1') or \
           any(re.match(r'^\(\*\(+\*?_1\)*\.\d+', x) for x in stmts):
            return self.call(m, fr, spec, clo, args, home)
        results, prefix = [], []
        while True:
            sub = Machine(self.P)
            sub.pc = list(m.pc)
            sub.solver.add(m.pc)
            sub.prefix = prefix
            sub.env = m.env
            sub.cache = {}
            try:
                r = self.call(sub, fr, spec, copyval(clo), [copyval(a) for a in args], home)
            except Panic:
                return self.call(m, fr, spec, clo, args, home)      # let the ordinary path report it
            results.append((sub.pc[len(m.pc):], r))
            m.nq += sub.nq
            tr = sub.trace
            while tr and tr[-1][0] + 1 >= tr[-1][1]:
                tr.pop()
            if not tr:
                break
            if len(results) >= limit:
                return self.call(m, fr, spec, clo, args, home)
            prefix = [c for c, _ in tr[:-1]] + [tr[-1][0] + 1]
        if len(results) == 1:
            return results[0][1]        # pure and branch-free: the nested run's value is the value

        def cond(pcs):
            return z3.And(pcs) if pcs else z3.BoolVal(True)

        def merge(vals):
            v0 = vals[0][1]
            if all(isinstance(v, I) for _, v in vals) and len({v.ty for _, v in vals}) == 1:
                acc = vals[-1][1].z()
                for c, v in reversed(vals[:-1]):
                    acc = z3.If(cond(c), v.z(), acc)
                return mk_int(acc, v0.ty)
            if all(isinstance(v, (bool, z3.BoolRef)) for _, v in vals):
                acc = vals[-1][1] if not isinstance(vals[-1][1], bool) else z3.BoolVal(vals[-1][1])
                for c, v in reversed(vals[:-1]):
                    acc = z3.If(cond(c), v if not isinstance(v, bool) else z3.BoolVal(v), acc)
                return mk_bool(acc)
            if all(isinstance(v, Vec) for _, v in vals) and len({(len(v.items), v.is_str) for _, v in vals}) == 1:
                items = [merge([(c, v.items[k]) for c, v in vals]) for k in range(len(v0.items))]
                return Vec(items, v0.is_str)
            raise Unsupported('unmergeable')
        try:
            return merge(results)
        except Unsupported:
            return self.call(m, fr, spec, clo, args, home)

    def call(self, m, fr, spec, clo, args, home=None):
        if spec.kind == 'path':
            return self.P.call(m, fr, spec.what, args)
        if home is None and isinstance(clo, Clo):
            home = clo.home
        f = self.closure_fn(spec.what, fr, args, home)
        byref = re.search(r'\(_1: (&mut |&)\{closure@', f.header)
        selfarg = Ref([clo], 0) if byref else clo
        return m.run(f, [selfarg] + list(args), fr.subst)


# ------------------------------------------------------------------ iterators
class It:
    def next(self, m):
        raise Unsupported('iterator without next')

    def next_back(self, m):
        raise Unsupported('%s is not double-ended here' % type(self).__name__)


class RangeView(It):
    def __init__(self, r, inclusive=False):
        self.r, self.inc, self.done = r, inclusive, False

    def _b(self):
        s, e = self.r[0], self.r[1]
        if s.sym() or e.sym():
            raise Unsupported('symbolic range bound')
        return s, e

    def next(self, m):
        s, e = self._b()
        sv, ev = (s.sval(), e.sval()) if s.ty[0] == 'i' else (s.v, e.v)
        if self.inc:
            if self.done or sv > ev:
                return None
            if sv == ev:
                self.done = True
            else:
                self.r[0] = I(sv + 1, s.ty)
            return I(sv, s.ty)
        if sv < ev:
            self.r[0] = I(sv + 1, s.ty)
            return I(sv, s.ty)
        return None

    def next_back(self, m):
        s, e = self._b()
        sv, ev = (s.sval(), e.sval()) if s.ty[0] == 'i' else (s.v, e.v)
        if self.inc:
            if self.done or sv > ev:
                return None
            if sv == ev:
                self.done = True
            else:
                self.r[1] = I(ev - 1, e.ty)
            return I(ev, e.ty)
        if sv < ev:
            self.r[1] = I(ev - 1, e.ty)
            return I(ev - 1, e.ty)
        return None


class RangeFromView(It):
    def __init__(self, r):
        self.r = r

    def next(self, m):
        s = self.r[0]
        if s.sym():
            raise Unsupported('symbolic range bound')
        self.r[0] = I(s.v + 1, s.ty)
        return s


class SliceView(It):
    """payload list [slice, pos(, end)] shared with the older Opaque('iter') representation"""
    def __init__(self, pl):
        self.pl = pl
        if len(pl) == 2:
            pl.append(pl[0].n)

    def _ref(self, k):
        sl = self.pl[0]
        return Ref(sl.arr, sl.start + k)

    def next(self, m):
        if self.pl[1] >= self.pl[2]:
            return None
        self.pl[1] += 1
        return self._ref(self.pl[1] - 1)

    def next_back(self, m):
        if self.pl[1] >= self.pl[2]:
            return None
        self.pl[2] -= 1
        return self._ref(self.pl[2])


class ChunksView(It):
    """payload [slice, chunk size, pos] shared with the older Opaque('chunks') representation"""
    def __init__(self, pl):
        self.pl = pl

    def next(self, m):
        sl, k, pos = self.pl
        if pos >= sl.n:
            return None
        n = min(k, sl.n - pos)
        self.pl[2] = pos + n
        return SliceRef(sl.arr, sl.start + pos, n)


class OwnedView(It):
    def __init__(self, items):
        self.items, self.pos, self.end = list(items), 0, len(items)

    def next(self, m):
        if self.pos >= self.end:
            return None
        self.pos += 1
        return self.items[self.pos - 1]

    def next_back(self, m):
        if self.pos >= self.end:
            return None
        self.end -= 1
        return self.items[self.end]


class Adapt(It):
    def __init__(self, kind, inner, call=None, clo=None, extra=None):
        self.kind, self.inner, self.call, self.clo, self.extra = kind, inner, call, clo, extra
        self.count, self.flag = 0, False

    def _f(self, m, *args):
        return self.call(m, self.clo, list(args))

    def _step(self, m, back):
        nx = self.inner.next_back if back else self.inner.next
        k = self.kind
        if k == 'map':
            v = nx(m)
            return None if v is None else (self._f(m, v),)
        if k == 'inspect':
            v = nx(m)
            if v is None:
                return None
            self._f(m, Ref([v], 0))
            return (v,)
        if k == 'filter':
            while True:
                v = nx(m)
                if v is None:
                    return None
                if m.branch_bool(self._f(m, Ref([v], 0))):
                    return (v,)
        if k in ('copied', 'cloned'):
            v = nx(m)
            return None if v is None else (copyval(_load1(v)),)
        if k == 'rev':
            v = (self.inner.next if back else self.inner.next_back)(m)
            return None if v is None else (v,)
        if back:
            raise Unsupported('next_back through ' + k)
        if k == 'take_while':
            if self.flag:
                return None
            v = nx(m)
            if v is None:
                return None
            if m.branch_bool(self._f(m, Ref([v], 0))):
                return (v,)
            self.flag = True
            return None
        if k == 'skip_while':
            while True:
                v = nx(m)
                if v is None:
                    return None
                if self.flag or not m.branch_bool(self._f(m, Ref([v], 0))):
                    self.flag = True
                    return (v,)
        if k == 'map_while':
            v = nx(m)
            if v is None:
                return None
            r = self._f(m, v)
            return (r.fields[0],) if r.variant == 'Some' else None
        if k == 'enumerate':
            v = nx(m)
            if v is None:
                return None
            self.count += 1
            return ([I(self.count - 1, 'usize'), v],)
        if k == 'zip':
            a = nx(m)
            if a is None:
                return None
            b = self.extra.next(m)
            return None if b is None else ([a, b],)
        if k == 'chain':
            if not self.flag:
                v = nx(m)
                if v is not None:
                    return (v,)
                self.flag = True
            v = self.extra.next(m)
            return None if v is None else (v,)
        if k == 'take':
            if self.count >= self.extra:
                return None
            self.count += 1
            v = nx(m)
            return None if v is None else (v,)
        if k == 'skip':
            while self.count < self.extra:
                self.count += 1
                if nx(m) is None:
                    return None
            v = nx(m)
            return None if v is None else (v,)
        if k == 'step_by':
            v = nx(m)
            if v is None:
                return None
            for _ in range(self.extra - 1):
                if nx(m) is None:
                    break
            return (v,)
        raise Unsupported('iterator adaptor ' + k)

    def next(self, m):
        r = self._step(m, False)
        return None if r is None else r[0]

    def next_back(self, m):
        r = self._step(m, True)
        return None if r is None else r[0]


class Successors(It):
    def __init__(self, first, step):
        self.cur, self.step = first, step

    def next(self, m):
        c = self.cur
        if c.variant != 'Some':
            return None
        v = c.fields[0]
        self.cur = self.step(m, Ref([v], 0))
        return v


class FromFn(It):
    def __init__(self, f):
        self.f = f

    def next(self, m):
        r = self.f(m)
        return r.fields[0] if r.variant == 'Some' else None


def to_iter(x):
    x = _load1(x)
    if isinstance(x, It):
        return x
    if isinstance(x, Opaque) and x.tag == 'iter':
        return SliceView(x.payload)
    if isinstance(x, Opaque) and x.tag == 'it':
        return x.payload
    if isinstance(x, Opaque) and x.tag == 'chunks':
        return ChunksView(x.payload)
    if isinstance(x, list) and len(x) == 2 and all(isinstance(v, I) for v in x):
        return RangeView(x)
    if isinstance(x, list) and len(x) == 1 and isinstance(x[0], I):
        return RangeFromView(x)
    raise Unsupported('value is not a modelled iterator: %r' % (x,))


def wrap(it):
    return Opaque('it', it)


def _some(v):
    return Enum('None') if v is None else Enum('Some', [v])


LIMIT = 100000


def install_std_models(P):
    M = P.model
    C = Caller(P)
    P.std_caller = C

    def conc_usize(v, what):
        if not isinstance(v, I) or v.sym():
            raise Unsupported('symbolic ' + what)
        return v.v

    @M(r'^<(.+) as (?:std::iter::)?IntoIterator>::into_iter$', regex=True)
    def _(m, fr, a, mm):
        x = a[0]
        v = _load1(x)
        if isinstance(v, (It,)) or (isinstance(v, Opaque) and v.tag in ('iter', 'it', 'chunks')) or (isinstance(v, list) and v and all(isinstance(t, I) for t in v)):
            return x if not isinstance(x, Ref) else v
        ty = mm.group(1)
        if isinstance(v, (Arr, Vec, SliceRef)):
            sl = as_slice(v)
            if ty.startswith('&'):
                return wrap(SliceView([sl, 0]))
            return wrap(OwnedView(sl.values()))
        raise Unsupported('into_iter on ' + ty)

    @M(r'^core::slice::<impl \[.+\]>::(iter|iter_mut)$', regex=True)
    def _(m, fr, a, mm):
        return wrap(SliceView([as_slice(a[0]), 0]))

    @M(r'^(?:std::ops::|core::ops::)?RangeInclusive::<(\w+)>::new$', regex=True)
    def _(m, fr, a, mm):
        return wrap(RangeView([a[0], a[1]], inclusive=True))

    @M(r'^(?:std::iter::|core::iter::)?(successors|from_fn)::<(.*)>$', regex=True)
    def _(m, fr, a, mm):
        if mm.group(1) == 'successors':
            f = a[1]
            return wrap(Successors(a[0], lambda mach, x: C.call_value(mach, fr, f, [x])))
        f = a[0]
        cell = [f]
        return wrap(FromFn(lambda mach: C.call_value(mach, fr, Ref(cell, 0), [])))

    @M(r'^<(.+) as (FnMut|Fn|FnOnce)<\((.*)\)>>::(call_mut|call|call_once)$', regex=True)
    def _(m, fr, a, mm):
        args = a[1] if isinstance(a[1], list) else [a[1]]
        return C.call_value(m, fr, a[0], list(args))

    @M(r'^core::bool::<impl bool>::(then|then_some)(?:::<(.*)>)?$', regex=True)
    def _(m, fr, a, mm):
        c = a[0]
        t = m.branch_bool(c) if not isinstance(c, bool) else c
        if not t:
            return Enum('None')
        return Enum('Some', [a[1] if mm.group(1) == 'then_some' else C.call_value(m, fr, a[1], [])])

    def struct_eq(m, x, y):
        x, y = _load1(x), _load1(y)
        if isinstance(x, Enum) and isinstance(y, Enum):
            if x.variant != y.variant or len(x.fields) != len(y.fields):
                return False
            r = True
            for p_, q_ in zip(x.fields, y.fields):
                e = struct_eq(m, p_, q_)
                if e is False:
                    return False
                r = e if r is True else m.binop('BitAnd', r, e)
            return r
        if isinstance(x, I) and isinstance(y, I):
            return m.binop('Eq', x, y)
        if isinstance(x, (bool, z3.BoolRef)) and isinstance(y, (bool, z3.BoolRef)):
            return m.binop('Eq', x, y)
        if isinstance(x, list) and isinstance(y, list) and len(x) == len(y):
            r = True
            for p_, q_ in zip(x, y):
                e = struct_eq(m, p_, q_)
                if e is False:
                    return False
                r = e if r is True else m.binop('BitAnd', r, e)
            return r
        raise Unsupported('structural equality of %r and %r' % (x, y))

    @M(r'^<(Option<.*>|std::cmp::Ordering|Ordering|Result<.*>) as PartialEq>::(eq|ne)$', regex=True)
    def _(m, fr, a, mm):
        r = struct_eq(m, a[0], a[1])
        if mm.group(2) == 'eq':
            return r
        return (not r) if isinstance(r, bool) else mk_bool(z3.Not(r))

    ADAPT1 = 'map|filter|take_while|skip_while|map_while|inspect'

    @M(r'^<(.+) as (?:std::iter::)?(Iterator|DoubleEndedIterator)>::(\w+)(?:::<(.*)>)?$', regex=True)
    def _(m, fr, a, mm):
        meth, gen = mm.group(3), mm.group(4)
        specs = fn_specs(gen)
        call = (lambda mach, clo, args, s=(specs[-1] if specs else None): C.call(mach, fr, s, clo, args)) if specs else None
        if specs and meth == 'map' and getattr(P, 'merge_pure_closures', False):
            call = lambda mach, clo, args, s=specs[-1]: C.call_merged(mach, fr, s, clo, args)
        if meth in ('next', 'next_back'):
            it = to_iter(a[0])
            return _some(it.next(m) if meth == 'next' else it.next_back(m))
        it = to_iter(a[0])
        if meth in ADAPT1.split('|'):
            if call is None:
                raise Unsupported('%s without a recognisable function argument (%s)' % (meth, gen))
            return wrap(Adapt(meth, it, call, a[1]))
        if meth in ('copied', 'cloned', 'rev', 'enumerate'):
            return wrap(Adapt(meth, it))
        if meth in ('zip', 'chain'):
            return wrap(Adapt(meth, it, extra=to_iter(a[1])))
        if meth in ('take', 'skip', 'step_by'):
            return wrap(Adapt(meth, it, extra=conc_usize(a[1], meth + ' count')))
        if meth == 'by_ref':
            return a[0]
        # ---- consumers
        def drain():
            n = 0
            while True:
                v = it.next(m)
                if v is None:
                    return
                n += 1
                if n > LIMIT:
                    raise Unsupported('iterator longer than %d' % LIMIT)
                yield v
        if meth == 'collect':
            if gen and (gen.startswith('Vec<') or gen.startswith('std::vec::Vec<')):
                return Vec(list(drain()))
            if gen == 'String':
                out = []
                for v in drain():
                    v = _load1(v)
                    if isinstance(v, Vec):
                        out.extend(v.items)
                    elif isinstance(v, I) and v.ty == 'char':
                        tmp = Vec(out, True)
                        P.call(m, fr, 'String::push', [Ref([tmp], 0), v])     # the program's own representation of chars in a String
                        out = tmp.items
                    else:
                        out.extend(as_slice(v).values())
                return Vec(out, True)
            raise Unsupported('collect into ' + str(gen))
        if meth == 'count':
            return I(sum(1 for _ in drain()), 'usize')
        if meth == 'last':
            r = None
            for v in drain():
                r = v
            return _some(r)
        if meth == 'nth':
            k = conc_usize(a[1], 'nth index')
            r = None
            for _ in range(k + 1):
                r = it.next(m)
                if r is None:
                    break
            return _some(r)
        if meth in ('sum', 'product'):
            acc = None
            for v in drain():
                v = _load1(v)
                if acc is None:
                    acc = v
                else:
                    r = m.binop('AddWithOverflow' if meth == 'sum' else 'MulWithOverflow', acc, v)
                    if m.branch_bool(r[1]):
                        raise Panic('attempt to %s with overflow' % ('add' if meth == 'sum' else 'multiply'))
                    acc = r[0]
            if acc is None:
                ty = gen if gen in BITS else 'usize'
                return I(0 if meth == 'sum' else 1, ty)
            return acc
        if meth in ('max', 'min'):
            best = None
            for v in drain():
                if best is None:
                    best = v
                else:
                    x, y = _load1(best), _load1(v)
                    # max keeps the last of equal elements, min the first (std semantics)
                    take = m.branch_bool(m.binop('Ge' if meth == 'max' else 'Lt', y, x))
                    best = v if take else best
            return _some(best)
        if call is None:
            raise Unsupported('iterator method %s (%s)' % (meth, gen))
        if meth == 'for_each':
            for v in drain():
                call(m, a[1], [v])
            return []
        if meth == 'fold':
            acc = a[1]
            for v in drain():
                acc = call(m, a[2], [acc, v])
            return acc
        if meth in ('position', 'any', 'all', 'find', 'rposition', 'find_map'):
            k = 0
            if meth == 'rposition':
                items = list(drain())
                for j in range(len(items) - 1, -1, -1):
                    if m.branch_bool(call(m, a[1], [items[j]])):
                        return Enum('Some', [I(j, 'usize')])
                return Enum('None')
            for v in drain():
                if meth == 'find_map':
                    r = call(m, a[1], [v])
                    if r.variant == 'Some':
                        return r
                    continue
                arg = Ref([v], 0) if meth == 'find' else v
                t = m.branch_bool(call(m, a[1], [arg]))
                if meth == 'position' and t:
                    return Enum('Some', [I(k, 'usize')])
                if meth == 'any' and t:
                    return True
                if meth == 'all' and not t:
                    return False
                if meth == 'find' and t:
                    return Enum('Some', [v])
                k += 1
            return {'position': Enum('None'), 'find': Enum('None'), 'find_map': Enum('None'), 'any': False, 'all': True}[meth]
        raise Unsupported('iterator method %s' % meth)

    @M(r'^<(String|Vec<.+>) as Extend<(.+?)>>::extend::<(.*)>$', regex=True)
    def _(m, fr, a, mm):
        src = _load1(a[1])
        if isinstance(src, (Arr, Vec, SliceRef)):
            it = OwnedView(as_slice(src).values())
        else:
            it = to_iter(src)
        n = 0
        while True:
            v = it.next(m)
            if v is None:
                return []
            n += 1
            if n > LIMIT:
                raise Unsupported('iterator longer than %d' % LIMIT)
            if mm.group(1) == 'String':
                if mm.group(2) == 'char':
                    P.call(m, fr, 'String::push', [a[0], v])
                else:
                    P.call(m, fr, 'String::push_str', [a[0], v])
            else:
                if mm.group(2).startswith('&'):
                    v = copyval(_load1(v))
                _load1(a[0]).items.append(v)

    @M(r'^<(\w+) as (From|Into)<(\w+)>>::(from|into)$', regex=True)
    def _(m, fr, a, mm):
        dst, src = (mm.group(1), mm.group(3)) if mm.group(2) == 'From' else (mm.group(3), mm.group(1))
        v = a[0]
        if not isinstance(v, I) or dst not in BITS or src not in BITS and src != 'bool':
            raise Unsupported('conversion %s -> %s' % (src, dst))
        if BITS[dst] < BITS[v.ty]:
            raise Unsupported('narrowing From conversion')
        if not v.sym():
            return I(v.sval() if v.ty[0] == 'i' else v.v, dst)
        z = v.z()
        ext = BITS[dst] - BITS[v.ty]
        return mk_int(z if ext == 0 else (z3.SignExt(ext, z) if v.ty[0] == 'i' else z3.ZeroExt(ext, z)), dst)

    @M(r'^<(Option|Result)<.*> as Try>::branch$', regex=True)
    def _(m, fr, a, mm):
        r = a[0]
        if r.variant in ('Some', 'Ok'):
            return Enum('Continue', [r.fields[0] if r.fields else []])
        return Enum('Break', [r])

    @M(r'^<(Option|Result)<.*> as FromResidual<.*>>::from_residual$', regex=True)
    def _(m, fr, a, mm):
        return a[0]

    # ---- Option
    @M(r'^Option::<(.+?)>::(filter|map|and_then|unwrap_or|unwrap_or_else|map_or|is_some|is_none|is_some_and|copied|cloned|expect|take|as_ref|as_mut|unwrap_or_default|or|ok_or|unwrap_unchecked)(?:::<(.*)>)?$', regex=True)
    def _(m, fr, a, mm):
        meth, gen = mm.group(2), mm.group(3)
        specs = fn_specs(gen)
        call = (lambda clo, args: C.call(m, fr, specs[-1], clo, args)) if specs else None
        o = a[0]
        if meth in ('as_ref', 'as_mut', 'take'):
            cell = o if isinstance(o, Ref) else Ref([o], 0)
            cur = cell.load()
            if meth == 'take':
                cell.store(Enum('None'))
                return cur
            return Enum('Some', [Ref(cur.fields, 0)]) if cur.variant == 'Some' else Enum('None')
        o = _load1(o)
        some = o.variant == 'Some'
        if meth == 'is_some':
            return some
        if meth == 'is_none':
            return not some
        if meth in ('copied', 'cloned'):
            return Enum('Some', [copyval(_load1(o.fields[0]))]) if some else o
        if meth in ('expect', 'unwrap_unchecked'):
            if not some:
                raise Panic('expect on None')
            return o.fields[0]
        if meth == 'unwrap_or':
            return o.fields[0] if some else a[1]
        if meth == 'or':
            return o if some else a[1]
        if meth == 'ok_or':
            return Enum('Ok', [o.fields[0]]) if some else Enum('Err', [a[1]])
        if meth == 'unwrap_or_default':
            if some:
                return o.fields[0]
            ty = mm.group(1)
            if ty in BITS:
                return I(0, ty)
            raise Unsupported('default of ' + ty)
        if call is None:
            raise Unsupported('Option::%s without a recognisable function argument (%s)' % (meth, gen))
        if meth == 'filter':
            if not some:
                return o
            return o if m.branch_bool(call(a[1], [Ref(o.fields, 0)])) else Enum('None')
        if meth == 'map':
            return Enum('Some', [call(a[1], [o.fields[0]])]) if some else o
        if meth == 'and_then':
            return call(a[1], [o.fields[0]]) if some else o
        if meth == 'unwrap_or_else':
            return o.fields[0] if some else call(a[1], [])
        if meth == 'map_or':
            return call(a[2], [o.fields[0]]) if some else a[1]
        if meth == 'is_some_and':
            return m.branch_bool(call(a[1], [o.fields[0]])) if some else False
        raise Unsupported('Option::' + meth)

    # ---- slices / Vec
    @M(r'^<(\[\w+(?:; \w+)?\]|Vec<.+>|str|String) as Index(?:Mut)?<(?:std::ops::)?(RangeFrom|RangeTo|Range|RangeFull)(?:<usize>)?>>::index(?:_mut)?$', regex=True)
    def _(m, fr, a, mm):
        sl = as_slice(a[0])
        rng = a[1]
        kind = mm.group(2)

        def c(v, what):
            if not isinstance(v, I) or v.sym():
                raise Unsupported('symbolic ' + what)
            return v.v
        if kind == 'RangeFrom':
            st, en = c(rng[0], 'range start'), sl.n
        elif kind == 'RangeTo':
            st, en = 0, c(rng[0], 'range end')
        elif kind == 'RangeFull':
            st, en = 0, sl.n
        else:
            st, en = c(rng[0], 'range start'), c(rng[1], 'range end')
        if st > en:
            raise Panic('slice index starts at %d but ends at %d' % (st, en), 'index')
        if en > sl.n:
            raise Panic('range end index %d out of range for slice of length %d' % (en, sl.n), 'index')
        return SliceRef(sl.arr, sl.start + st, en - st)

    @M(r'^core::slice::<impl \[.+\]>::(split_at|split_at_mut)$', regex=True)
    def _(m, fr, a, mm):
        sl = as_slice(a[0])
        k = a[1]
        if k.sym():
            raise Unsupported('split_at with a symbolic position')
        if k.v > sl.n:
            raise Panic('mid > len')
        return [SliceRef(sl.arr, sl.start, k.v), SliceRef(sl.arr, sl.start + k.v, sl.n - k.v)]

    @M(r'^core::slice::<impl \[.+\]>::(chunks|chunks_exact)$', regex=True)
    def _(m, fr, a, mm):
        sl = as_slice(a[0])
        k = conc_usize(a[1], 'chunk size')
        if k == 0:
            raise Panic('chunk size must be non-zero')
        if mm.group(1) == 'chunks_exact':
            sl = SliceRef(sl.arr, sl.start, sl.n - sl.n % k)
        return Opaque('chunks', [sl, k, 0])

    @M(r'^core::slice::<impl \[.+\]>::fill$', regex=True)
    def _(m, fr, a, mm):
        sl = as_slice(a[0])
        for i in range(sl.n):
            sl.set(i, copyval(a[1]))
        return []

    @M(r'^core::slice::<impl \[.+\]>::(split_first|split_last)$', regex=True)
    def _(m, fr, a, mm):
        sl = as_slice(a[0])
        if sl.n == 0:
            return Enum('None')
        if mm.group(1) == 'split_first':
            return Enum('Some', [[Ref(sl.arr, sl.start), SliceRef(sl.arr, sl.start + 1, sl.n - 1)]])
        return Enum('Some', [[Ref(sl.arr, sl.start + sl.n - 1), SliceRef(sl.arr, sl.start, sl.n - 1)]])

    @M(r'^<Vec<.*> as Deref(Mut)?>::deref(_mut)?$', regex=True)
    def _(m, fr, a, mm):
        return as_slice(a[0])

    @M(r'^(core::slice::<impl \[.+\]>|Vec::<.*>)::(len|is_empty|first|last|get|first_mut|last_mut|get_mut)(?:::<usize>)?$', regex=True)
    def _(m, fr, a, mm):
        sl = as_slice(a[0])
        meth = mm.group(2).replace('_mut', '')
        if meth == 'len':
            return I(sl.n, 'usize')
        if meth == 'is_empty':
            return sl.n == 0
        if meth == 'first':
            return Enum('Some', [Ref(sl.arr, sl.start)]) if sl.n else Enum('None')
        if meth == 'last':
            return Enum('Some', [Ref(sl.arr, sl.start + sl.n - 1)]) if sl.n else Enum('None')
        i = a[1]
        if i.sym():
            raise Unsupported('slice::get with a symbolic index')
        return Enum('Some', [Ref(sl.arr, sl.start + i.v)]) if i.v < sl.n else Enum('None')

    # ---- strings (a String/&str is a Vec / slice of element values; the element representation is the program's)
    @M(r'^(<String as Deref>::deref|String::as_str|<String as AsRef<str>>::as_ref|String::as_mut_str|<String as DerefMut>::deref_mut|<String as Borrow<str>>::borrow)$', regex=True)
    def _(m, fr, a, mm):
        return as_slice(a[0])

    @M(r'^(String::len|core::str::<impl str>::len)$', regex=True)
    def _(m, fr, a, mm):
        return I(as_slice(a[0]).n, 'usize')

    @M(r'^(String::is_empty|core::str::<impl str>::is_empty)$', regex=True)
    def _(m, fr, a, mm):
        return as_slice(a[0]).n == 0

    @M(r'^(?:std::vec::|alloc::vec::)?from_elem::<(.+)>$', regex=True)
    def _(m, fr, a, mm):
        n = conc_usize(a[1], 'vector length')
        if n > (1 << 20):
            raise Unsupported('vec![x; n] with n = %d' % n)
        return Vec([a[0]] * n)

    @M(r'^Vec::<.*>::into_boxed_slice$', regex=True)
    def _(m, fr, a, mm):
        v = _load1(a[0])
        items = v.items
        if items and all(x is items[0] for x in items):
            return Ref([Arr(len(items), items[0], {})], 0)
        return Ref([Arr(len(items), items[0] if items else I(0, 'u8'), dict(enumerate(items)))], 0)

    @M(r'^<Box<\[.+\]> as (Deref|DerefMut)>::(deref|deref_mut)$', regex=True)
    def _(m, fr, a, mm):
        return as_slice(a[0])

    @M(r'^Vec::<.*>::(extend_from_slice|append)$', regex=True)
    def _(m, fr, a, mm):
        v = _load1(a[0])
        src = as_slice(a[1]) if mm.group(1) == 'extend_from_slice' else None
        if src is not None:
            v.items.extend(copyval(x) for x in src.values())
        else:
            o = _load1(a[1])
            v.items.extend(o.items)
            del o.items[:]
        return []

    @M(r'^(String::from_utf8|String::from_utf8_unchecked|String::from_utf8_lossy)$', regex=True)
    def _(m, fr, a, mm):
        v = _load1(a[0])
        bs = list(v.items) if isinstance(v, Vec) else as_slice(v).values()
        for b in bs:
            if not isinstance(b, I):
                raise Unsupported('from_utf8 of non-byte elements')
            if b.sym():
                if m.branch_bool(mk_bool(z3.UGE(b.z(), 128))):
                    raise Unsupported('from_utf8 of possibly non-ASCII bytes')
            elif b.v > 127:
                raise Unsupported('from_utf8 of non-ASCII bytes')
        s_ = Vec(bs, True)
        return s_ if mm.group(1) == 'String::from_utf8_unchecked' else (Enum('Ok', [s_]) if mm.group(1) == 'String::from_utf8' else s_)

    @M(r'^(String::truncate|Vec::<.*>::truncate)$', regex=True)
    def _(m, fr, a, mm):
        v = _load1(a[0])
        k = a[1]
        if k.sym():
            raise Unsupported('truncate to a symbolic length')
        del v.items[k.v:]
        return []

    @M(r'^(String::clear|Vec::<.*>::clear)$', regex=True)
    def _(m, fr, a, mm):
        del _load1(a[0]).items[:]
        return []

    @M(r'^Vec::<.*>::pop$', regex=True)
    def _(m, fr, a, mm):
        v = _load1(a[0])
        return Enum('Some', [v.items.pop()]) if v.items else Enum('None')

    @M(r'^core::str::<impl str>::(ends_with|starts_with)::<char>$', regex=True)
    def _(m, fr, a, mm):
        sl = as_slice(a[0])
        if sl.n == 0:
            return False
        e = sl.get(sl.n - 1 if mm.group(1) == 'ends_with' else 0)
        c = a[1]
        if c.sym() or c.v > 127:
            raise Unsupported('ends_with/starts_with a symbolic or non-ASCII char')
        cz = z3.BitVecVal(c.v, BITS[e.ty])
        return mk_bool(e.z() == cz)

    # ---- integer methods
    def ovf_panic(m, flag, what):
        if m.branch_bool(flag):
            raise Panic('attempt to %s with overflow' % what)

    @M(r'^core::num::<impl (\w+)>::(wrapping_add|wrapping_sub|wrapping_mul|wrapping_neg|checked_add|checked_sub|checked_mul|overflowing_add|overflowing_sub|overflowing_mul|saturating_add|saturating_sub|rem_euclid|div_euclid|abs|abs_diff|is_power_of_two|count_ones|leading_zeros|trailing_zeros|pow|min|max|signum|is_negative|is_positive)$', regex=True)
    def _(m, fr, a, mm):
        ty, meth = mm.group(1), mm.group(2)
        if ty not in BITS:
            raise Unsupported('integer method on ' + ty)
        nb, signed = BITS[ty], ty[0] == 'i'
        x = a[0]
        y = a[1] if len(a) > 1 else None
        op = {'add': 'Add', 'sub': 'Sub', 'mul': 'Mul'}
        kind = meth.split('_')[-1]
        if meth in ('wrapping_add', 'wrapping_sub', 'wrapping_mul'):
            return m.binop(op[kind], x, y)
        if meth == 'wrapping_neg':
            return m.binop('Sub', I(0, ty), x)
        if meth.startswith(('checked_', 'overflowing_', 'saturating_')):
            r = m.binop(op[kind].replace('d', 'd') + 'WithOverflow', x, y)
            if meth.startswith('overflowing_'):
                return [r[0], r[1]]
            if m.branch_bool(r[1]):
                if meth.startswith('checked_'):
                    return Enum('None')
                if not signed:
                    return I((1 << nb) - 1 if kind == 'add' else 0, ty)
                # signed saturation: direction from the sign of the second operand (add) / its negation (sub)
                neg = m.branch_bool(mk_bool(y.z() < 0))
                hi, lo = I((1 << (nb - 1)) - 1, ty), I(1 << (nb - 1), ty)
                return (lo if neg else hi) if kind == 'add' else (hi if neg else lo)
            return Enum('Some', [r[0]]) if meth.startswith('checked_') else r[0]
        if meth in ('rem_euclid', 'div_euclid'):
            if m.branch_bool(m.binop('Eq', y, I(0, ty))):
                raise Panic('attempt to calculate the remainder with a divisor of zero' if meth == 'rem_euclid' else 'attempt to divide by zero')
            if signed and m.branch_bool(mk_bool(z3.And(x.z() == z3.BitVecVal(1 << (nb - 1), nb), y.z() == z3.BitVecVal((1 << nb) - 1, nb)))):
                raise Panic('attempt to calculate the remainder with overflow' if meth == 'rem_euclid' else 'attempt to divide with overflow')
            if not signed:
                return m.binop('Rem' if meth == 'rem_euclid' else 'Div', x, y)
            r = m.binop('Rem', x, y)
            q = m.binop('Div', x, y)
            rneg = m.branch_bool(mk_bool(r.z() < 0))
            if not rneg:
                return r if meth == 'rem_euclid' else q
            ypos = m.branch_bool(mk_bool(y.z() > 0))
            if meth == 'rem_euclid':
                return m.binop('Add' if ypos else 'Sub', r, y)     # r + |y| (wrapping like std)
            return m.binop('Sub' if ypos else 'Add', q, I(1, ty))
        if meth == 'abs':
            if not signed:
                raise Unsupported('abs on an unsigned type')
            if m.branch_bool(mk_bool(x.z() < 0)):
                r = m.binop('SubWithOverflow', I(0, ty), x)
                ovf_panic(m, r[1], 'negate')
                return r[0]
            return x
        if meth == 'abs_diff':
            ut = 'u' + ty[1:]
            lt = m.branch_bool(m.binop('Lt', x, y))
            d = m.binop('Sub', y, x) if lt else m.binop('Sub', x, y)
            return mk_int(d.z(), ut) if d.sym() else I(d.v, ut)
        if meth in ('min', 'max'):
            c = m.branch_bool(m.binop('Le' if meth == 'min' else 'Ge', x, y))
            # std: min returns the first when equal, max returns the second when equal
            if meth == 'max' and c and not m.branch_bool(m.binop('Ne', x, y)):
                return y
            return x if c else y
        if meth in ('is_negative', 'is_positive'):
            return mk_bool(x.z() < 0) if meth == 'is_negative' else mk_bool(x.z() > 0)
        if meth == 'signum':
            if m.branch_bool(mk_bool(x.z() < 0)):
                return I((1 << nb) - 1, ty)
            return I(0, ty) if m.branch_bool(m.binop('Eq', x, I(0, ty))) else I(1, ty)
        if meth == 'is_power_of_two':
            z = x.z()
            return mk_bool(z3.And(z != 0, (z & (z - 1)) == 0))
        if meth in ('count_ones', 'leading_zeros', 'trailing_zeros'):
            z = x.z()
            if meth == 'count_ones':
                acc = z3.BitVecVal(0, 32)
                for k in range(nb):
                    acc = acc + z3.ZeroExt(31, z3.Extract(k, k, z))
            elif meth == 'trailing_zeros':
                acc = z3.BitVecVal(nb, 32)
                for k in range(nb - 1, -1, -1):
                    acc = z3.If(z3.Extract(k, k, z) == 1, z3.BitVecVal(k, 32), acc)
            else:
                acc = z3.BitVecVal(nb, 32)
                for k in range(nb):
                    acc = z3.If(z3.Extract(k, k, z) == 1, z3.BitVecVal(nb - 1 - k, 32), acc)
            return mk_int(acc, 'u32')
        if meth == 'pow':
            if y.sym():
                raise Unsupported('pow with a symbolic exponent')
            acc = I(1, ty)
            for _ in range(y.v):
                r = m.binop('MulWithOverflow', acc, x)
                ovf_panic(m, r[1], 'multiply')
                acc = r[0]
            return acc
        raise Unsupported('integer method ' + meth)

    @M(r'^core::num::<impl (\w+)>::(from_le_bytes|from_be_bytes|from_ne_bytes|to_le_bytes|to_be_bytes|to_ne_bytes)$', regex=True)
    def _(m, fr, a, mm):
        ty, meth = mm.group(1), mm.group(2)
        nb = BITS[ty] // 8
        little = 'be' not in meth
        if meth.startswith('from_'):
            arr = _load1(a[0])
            bs = [arr.get(i) for i in range(nb)]
            if not little:
                bs = bs[::-1]
            if all(not b.sym() for b in bs):
                return I(sum(b.v << (8 * i) for i, b in enumerate(bs)), ty)
            return mk_int(z3.Concat(*[b.z() for b in reversed(bs)]) if nb > 1 else bs[0].z(), ty)
        x = a[0]
        bs = [mk_int(z3.Extract(8 * i + 7, 8 * i, x.z()), 'u8') for i in range(nb)]
        if not little:
            bs = bs[::-1]
        return Arr(nb, I(0, 'u8'), dict(enumerate(bs)))

    @M(r'^(?:<(\w+) as Ord>::clamp|core::num::<impl (\w+)>::clamp)$', regex=True)
    def _(m, fr, a, mm):
        x, lo, hi = a
        if m.branch_bool(m.binop('Gt', lo, hi)):
            raise Panic('assertion failed: min <= max')
        if m.branch_bool(m.binop('Lt', x, lo)):
            return lo
        if m.branch_bool(m.binop('Gt', x, hi)):
            return hi
        return x

    @M(r'^(?:std::cmp::|core::cmp::)?(min|max)::<(\w+)>$', regex=True)
    def _(m, fr, a, mm):
        return P.call(m, fr, 'core::num::<impl %s>::%s' % (mm.group(2), mm.group(1)), a)

    @M(r'^<(\w+) as Ord>::(min|max)$', regex=True)
    def _(m, fr, a, mm):
        return P.call(m, fr, 'core::num::<impl %s>::%s' % (mm.group(1), mm.group(2)), a)

    # ---- RefCell (borrow state tracked: a second mutable borrow panics like the real one)
    class RefCellObj:
        def __init__(self, v):
            self.cell, self.state = [v], 0

    @M(r'^RefCell::<.*>::new$', regex=True)
    def _(m, fr, a, mm):
        return RefCellObj(a[0])

    @M(r'^RefCell::<.*>::(borrow_mut|borrow)$', regex=True)
    def _(m, fr, a, mm):
        rc = _load1(a[0])
        if not isinstance(rc, RefCellObj):
            raise Unsupported('borrow of an unknown RefCell')
        if mm.group(1) == 'borrow_mut':
            if rc.state != 0:
                raise Panic('already borrowed: BorrowMutError')
            rc.state = -1
        else:
            if rc.state < 0:
                raise Panic('already mutably borrowed: BorrowError')
            rc.state += 1
        return Opaque('cellref', (rc, mm.group(1)))

    @M(r"^<(RefMut|std::cell::RefMut|Ref|std::cell::Ref)<'_, .*> as Deref(Mut)?>::deref(_mut)?$", regex=True)
    def _(m, fr, a, mm):
        g = _load1(a[0])
        if not (isinstance(g, Opaque) and g.tag == 'cellref'):
            raise Unsupported('deref of an unknown RefCell guard')
        return Ref(g.payload[0].cell, 0)

    prev = P.drop_hook

    def drop_hook(m, fr, v):
        if isinstance(v, Opaque) and v.tag == 'cellref':
            rc, kind = v.payload
            rc.state = 0 if kind == 'borrow_mut' else max(0, rc.state - 1)
        elif prev:
            prev(m, fr, v)
    P.drop_hook = drop_hook
