"""C08: Reader results depend only on the input bytes (mirsym driver).

Per script: the reference parse runs first on the symbolic bytes (forking on byte classes through the solver and
pruning inputs that violate the API precondition of an operation), then the real MIR of rlib_io::Reader runs under an
environment that forks over every chunk length (and Interrupted faults). Per completed path the solver decides
  (i)  impl result == reference result under the path condition,
  (ii) impl result == result of the whole-input schedule for the same byte-class case (schedule independence, reference-free),
  (iii) no panic.
"""
import z3, time, itertools
from .core import (Machine, explore, Unsupported, Panic, PathLimit, I, Arr, Vec, Ref, SliceRef, Enum, Opaque, BITS, mk_bool)
from .iomodel import IoProgram, ReadEnv

WS = (9, 10, 12, 13, 32)


class Pre(Exception):
    """API precondition of the scripted operation does not hold on this input: path is outside the property"""


def is_ws(b):
    return z3.Or([b == k for k in WS])


def is_digit(b):
    return z3.And(z3.UGE(b, 48), z3.ULE(b, 57))


class RefParser:
    def __init__(self, m, data):
        self.m, self.d, self.pos, self.L = m, data, 0, len(data)

    def dec(self, cond):
        return self.m.branch_bool(mk_bool(cond))

    def ws(self, i):
        return self.dec(is_ws(self.d[i].z()))

    def skip_ws(self):
        while self.pos < self.L and self.ws(self.pos):
            self.pos += 1

    def token(self):
        self.skip_ws()
        if self.pos == self.L:
            raise Pre()
        s = self.pos
        while self.pos < self.L and not self.ws(self.pos):
            self.pos += 1
        return self.d[s:self.pos]

    def read(self, ty):
        if ty == 'String':
            return ('str', self.token())
        if ty == 'char':
            self.skip_ws()
            if self.pos == self.L:
                raise Pre()
            c = self.d[self.pos]
            self.pos += 1
            return ('int', I(z3.ZeroExt(24, c.z()) if c.sym() else c.v, 'char'))
        if ty.startswith('('):
            from .core import split_top
            return ('tuple', [self.read(t) for t in split_top(ty[1:-1])])
        bits = BITS[ty]
        signed = ty[0] == 'i'
        tok = self.token()
        neg = False
        if signed and self.dec(tok[0].z() == 45):
            neg = True
            tok = tok[1:]
        if not tok:
            raise Pre()
        W = bits + 8 * len(tok) + 8
        acc = z3.BitVecVal(0, W)
        for b in tok:
            if not self.dec(is_digit(b.z())):
                raise Pre()
            acc = acc * 10 + z3.ZeroExt(W - 8, b.z() - 48)
        if neg:
            acc = -acc
        lo, hi = (-(1 << (bits - 1)), (1 << (bits - 1)) - 1) if signed else (0, (1 << bits) - 1)
        if not self.dec(z3.And(acc >= lo, acc <= hi)):
            raise Pre()
        return ('int', I(z3.simplify(z3.Extract(bits - 1, 0, acc)), ty))

    def read_line(self):
        if self.pos == self.L:
            return ('opt', None)
        s = self.pos
        i = s
        while i < self.L and not self.dec(self.d[i].z() == 10):
            i += 1
        if i < self.L:
            line = self.d[s:i]
            self.pos = i + 1
            if line and self.dec(line[-1].z() == 13):
                line = line[:-1]
        else:
            line = self.d[s:self.L]
            self.pos = self.L
        return ('opt', ('str', line))

    def is_eof(self):
        self.skip_ws()
        return ('bool', self.pos == self.L)

    def op(self, op):
        if op[0] == 'read':
            return self.read(op[1])
        if op[0] == 'line':
            return self.read_line()
        if op[0] == 'eof':
            return self.is_eof()
        if op[0] == 'vec':
            return ('vec', [self.read(op[1]) for _ in range(op[2])])
        if op[0] == 'lines':
            out = []
            while True:
                r = self.read_line()
                if r[1] is None:
                    return ('vec', out)
                out.append(r[1])
        raise Unsupported('script op %r' % (op,))


def norm(v, ty=None):
    """impl value -> comparable structure"""
    if isinstance(v, bool) or isinstance(v, z3.BoolRef):
        return ('bool', v)
    if isinstance(v, I):
        return ('int', v)
    if isinstance(v, Vec):
        if v.is_str:
            return ('str', list(v.items))
        return ('vec', [norm(x) for x in v.items])
    if isinstance(v, Enum):
        if v.variant == 'None':
            return ('opt', None)
        if v.variant == 'Some':
            return ('opt', norm(v.fields[0]))
    if isinstance(v, list):
        return ('tuple', [norm(x) for x in v])
    raise Unsupported('result value %r' % (v,))


def shape(x):
    k = x[0]
    if k == 'int':
        return ('int', x[1].ty)
    if k == 'bool':
        return ('bool', x[1]) if isinstance(x[1], bool) else ('bool',)
    if k == 'str':
        return ('str', len(x[1]))
    if k == 'opt':
        return ('opt', None if x[1] is None else shape(x[1]))
    return (k, tuple(shape(e) for e in x[1]))


def diff_terms(a, b):
    """z3 disjunction 'a differs from b' for two results of the same shape"""
    k = a[0]
    if k == 'int':
        x, y = a[1], b[1]
        if x.ty == 'char' or y.ty == 'char':
            return [x.z() != y.z()] if BITS[x.ty] == BITS[y.ty] else [z3.ZeroExt(32 - BITS[x.ty], x.z()) != z3.ZeroExt(32 - BITS[y.ty], y.z())]
        return [x.z() != y.z()]
    if k == 'bool':
        from .core import zbool
        return [z3.Xor(zbool(a[1]), zbool(b[1]))]
    if k == 'str':
        out = []
        for x, y in zip(a[1], b[1]):
            xz = x.z() if BITS[x.ty] == 8 else z3.Extract(7, 0, x.z())
            yz = y.z() if BITS[y.ty] == 8 else z3.Extract(7, 0, y.z())
            out.append(xz != yz)
            if BITS[x.ty] == 32:
                out.append(z3.Extract(31, 8, x.z()) != 0)
            if BITS[y.ty] == 32:
                out.append(z3.Extract(31, 8, y.z()) != 0)
        return out
    if k == 'opt':
        return [] if a[1] is None else diff_terms(a[1], b[1])
    out = []
    for x, y in zip(a[1], b[1]):
        out += diff_terms(x, y)
    return out


def show(x, model=None):
    k = x[0]
    def ev(i):
        if not i.sym():
            return i.sval()
        if model is None:
            return '?'
        v = model.eval(i.v, model_completion=True).as_long()
        return I(v, i.ty).sval()
    if k == 'int':
        return '%s:%s' % (x[1].ty, ev(x[1]))
    if k == 'bool':
        b = x[1]
        if not isinstance(b, bool):
            b = z3.is_true(model.eval(b, model_completion=True)) if model is not None else '?'
        return 'bool:%s' % str(b).lower()
    if k == 'str':
        return 'str:' + ''.join('%02x' % (ev(c) & 255) if ev(c) != '?' else '??' for c in x[1])
    if k == 'opt':
        return 'None' if x[1] is None else 'Some(' + show(x[1], model) + ')'
    return k + '[' + ','.join(show(e, model) for e in x[1]) + ']'


def script_name(script):
    def one(op):
        if op[0] == 'read':
            return 'r:' + op[1].replace(' ', '')
        if op[0] == 'vec':
            return 'v:%s:%d' % (op[1], op[2])
        return {'line': 'l', 'eof': 'e', 'lines': 'L'}[op[0]]
    return ';'.join(one(o) for o in script)


class ReaderCheck:
    def __init__(self, prog, alphabet, buf_size):
        self.prog = prog
        self.alphabet = alphabet
        self.buf_size = buf_size
        self.queries = 0
        self.qtime = 0.0

    def new_reader(self, m, k=None):
        return self.prog.fresh_reader(m, k)

    def run_impl_op(self, m, rref, op):
        P = self.prog
        if op[0] == 'read':
            f, sub = P.readable_for(op[1])
            return m.run(f, [rref], sub)
        if op[0] == 'line':
            return m.run(P.reader_fns['read_line'], [rref], {})
        if op[0] == 'eof':
            return m.run(P.reader_fns['is_eof'], [rref], {})
        if op[0] == 'vec':
            return m.run(P.reader_fns['read_vec'], [rref, I(op[2], 'usize')], {'T': op[1]})
        if op[0] == 'lines':
            return m.run(P.reader_fns['read_lines'], [rref], {})
        raise Unsupported('op')

    def body(self, L, script, faults, start_k, max_chunk=None):
        bs = [z3.BitVec('b%d' % i, 8) for i in range(L)]
        data = [I(b, 'u8') for b in bs]

        def run(m):
            for b in bs:
                m.assume(z3.Or([b == c for c in self.alphabet]))
            ref = RefParser(m, data)
            try:
                expected = [ref.op(o) for o in script]
            except Pre:
                return {'pre': False}
            nref = len(m.trace)
            env = ReadEnv(data, faults, max_chunk=max_chunk)
            m.env = env
            slot = [self.new_reader(m, start_k)]
            rref = Ref(slot, 0)
            got = []
            rec = {'pre': True, 'expected': expected, 'got': got, 'nref': nref, 'env': env, 'bs': bs}
            m.events.append(rec)
            for o in script:
                got.append(norm(self.run_impl_op(m, rref, o)))
            return rec
        return run, bs

    def solve(self, conds):
        s = z3.Solver()
        s.set('timeout', 60000)
        s.add(conds)
        t0 = time.time()
        r = s.check()
        self.qtime += time.time() - t0
        self.queries += 1
        if r == z3.unknown:
            raise Unsupported('solver unknown on an obligation')
        return s.model() if r == z3.sat else None

    def check_script(self, L, script, faults=0, start_k=None, max_paths=60000, max_chunk=None):
        """-> dict(paths, pruned, violations:[...], obligations)"""
        run, bs = self.body(L, script, faults, start_k, max_chunk)
        paths = explore(self.prog, run, max_paths=max_paths)
        viol = []
        n_ok = n_pruned = n_obl = 0
        groups = {}
        for p in paths:
            out = p['outcome']
            if out is not None and out.get('pre') is False:
                n_pruned += 1
                continue
            rec = out if out is not None else (p['events'][0] if p['events'] else None)
            if rec is None:
                raise Unsupported('path without record: ' + p['status'])
            n_ok += 1
            sched = list(rec['env'].schedule)
            key = tuple(c for c, _ in p['trace'][:rec['nref']])
            base = dict(script=script_name(script), L=L, faults=faults, start_k=start_k, schedule=sched)
            if p['status'] != 'ok':
                mdl = self.solve(p['pc'])
                n_obl += 1
                viol.append(dict(base, kind='panic', detail=p['status'], bytes=self.bytes_of(mdl, bs),
                                 expected=[show(e, mdl) for e in rec['expected']]))
                continue
            exp, got = rec['expected'], rec['got']
            # (i) reference
            n_obl += 1
            if [shape(e) for e in exp] != [shape(g) for g in got]:
                mdl = self.solve(p['pc'])
                viol.append(dict(base, kind='reference-mismatch', detail='result shape differs', bytes=self.bytes_of(mdl, bs),
                                 expected=[show(e, mdl) for e in exp], got=[show(g, mdl) for g in got]))
            else:
                d = []
                for e, g in zip(exp, got):
                    d += diff_terms(e, g)
                d = [x for x in d if not z3.is_false(z3.simplify(x))]
                if d:
                    mdl = self.solve(p['pc'] + [z3.Or(d)])
                    if mdl is not None:
                        viol.append(dict(base, kind='reference-mismatch', detail='value differs', bytes=self.bytes_of(mdl, bs),
                                         expected=[show(e, mdl) for e in exp], got=[show(g, mdl) for g in got]))
            # (ii) schedule independence against the first (whole-input) schedule of the same byte-class case
            if key not in groups:
                groups[key] = (p, rec)
            else:
                bp, brec = groups[key]
                n_obl += 1
                bgot = brec['got']
                if [shape(e) for e in bgot] != [shape(g) for g in got]:
                    mdl = self.solve(p['pc'] + bp['pc'])
                    if mdl is not None:
                        viol.append(dict(base, kind='schedule-dependence', detail='result shape differs between schedules',
                                         bytes=self.bytes_of(mdl, bs), schedule_b=list(brec['env'].schedule),
                                         got=[show(g, mdl) for g in got], got_b=[show(g, mdl) for g in bgot]))
                else:
                    d = []
                    for e, g in zip(bgot, got):
                        d += diff_terms(e, g)
                    d = [x for x in d if not z3.is_false(z3.simplify(x))]
                    if d:
                        mdl = self.solve(p['pc'] + bp['pc'] + [z3.Or(d)])
                        if mdl is not None:
                            viol.append(dict(base, kind='schedule-dependence', detail='value differs between schedules',
                                             bytes=self.bytes_of(mdl, bs), schedule_b=list(brec['env'].schedule),
                                             got=[show(g, mdl) for g in got], got_b=[show(g, mdl) for g in bgot]))
        return dict(paths=len(paths), explored=n_ok, pruned=n_pruned, obligations=n_obl, violations=viol, cases=len(groups))

    @staticmethod
    def bytes_of(mdl, bs):
        if mdl is None:
            return None
        return [mdl.eval(b, model_completion=True).as_long() for b in bs]
