"""C18 on the MIR: the Rust glue of rlib_f80 (trait impls, MaybeUninit plumbing, flag masking, partial_cmp/abs/min/max logic,
macro expansions) is executed by mirsym from the dumped MIR; every `asm!` terminator is handed, with its operand values, to
the x87 instruction interpreter of x87sym (templates come from the MIR, i.e. after macro expansion).

Values: an f80 is its 10-byte array; here that array carries a FloatingPoint(15,64) term (`F80Bytes.fp`) and bytes are
derived from it on demand (sign | exponent | explicit integer bit | fraction); an f64 is an `F` wrapping a FloatingPoint(11,53)
term. Registers written by the template but not fully defined (e.g. `seta al` with `out("ax")`) get FRESH upper bits."""
import re, sys, os, z3
from .core import Program, Machine, explore, Unsupported, Panic, PathLimit, I, Arr, Vec, Ref, SliceRef, Enum, Opaque, BITS, mk_int, mk_bool, zbool, copyval
sys.path.insert(0, os.path.join(os.path.dirname(os.path.dirname(os.path.abspath(__file__))), 'x87'))
import x87sym
from x87sym import X87, F80, F64, RNE


class F:
    """an f64 (or f32) value"""
    def __init__(self, fp, ty='f64'):
        self.fp, self.ty = fp, ty

    def __repr__(self):
        return '<%s %s>' % (self.ty, self.fp)


_nan_ctr = [0]


def enc80(fp):
    """80-bit pattern of a value: sign | exponent | explicit integer bit | fraction. SMT-LIB leaves the bits of NaN
    unspecified: a NaN is encoded as a QUIET NaN (exponent all ones, integer and quiet bits set) with an arbitrary sign
    and payload (fresh variables), which is what the FPU produces/propagates for the operations modelled here."""
    bv = z3.fpToIEEEBV(fp)                       # sign(1) exp(15) frac(63)
    sign, exp, frac = z3.Extract(78, 78, bv), z3.Extract(77, 63, bv), z3.Extract(62, 0, bv)
    intbit = z3.If(exp == 0, z3.BitVecVal(0, 1), z3.BitVecVal(1, 1))
    num = z3.Concat(sign, exp, intbit, frac)
    _nan_ctr[0] += 1
    nan = z3.Concat(z3.BitVec('nan_sign!%d' % _nan_ctr[0], 1), z3.BitVecVal(0x7fff, 15), z3.BitVecVal(3, 2), z3.BitVec('nan_payload!%d' % _nan_ctr[0], 62))
    return z3.If(z3.fpIsNaN(fp), nan, num)


class F80Bytes(Arr):
    """the [u8; 10] of an f80 that carries the value as a floating-point term"""
    __slots__ = ('fp',)

    def __init__(self, fp):
        Arr.__init__(self, 10, I(0, 'u8'), {})
        self.fp = fp

    def clone(self):
        c = F80Bytes(self.fp)
        c.d = dict(self.d)
        return c

    def _materialise(self):
        if self.fp is not None:
            full = enc80(self.fp)
            for i in range(10):
                self.d[i] = mk_int(z3.Extract(8 * i + 7, 8 * i, full), 'u8')
            self.fp = None

    def get(self, i):
        if not (0 <= i < 10):
            raise Panic('array index %d out of bounds (len 10)' % i)
        if self.fp is not None:
            return mk_int(z3.Extract(8 * i + 7, 8 * i, enc80(self.fp)), 'u8')
        return Arr.get(self, i)

    def set(self, i, v):
        self._materialise()
        Arr.set(self, i, v)

    def __getitem__(self, i):
        return self.get(i)

    def __setitem__(self, i, v):
        self.set(i, v)


def fp_of_bytes(arr, start=0):
    """decode 10 bytes (assumed a canonical x87 encoding: integer bit consistent with the exponent)"""
    if isinstance(arr, F80Bytes) and arr.fp is not None and start == 0:
        return arr.fp
    bs = [arr.get(start + i) for i in range(10)]
    full = z3.Concat(*[b.z() for b in reversed(bs)])
    r = z3.fpFP(z3.Extract(79, 79, full), z3.Extract(78, 64, full), z3.Extract(62, 0, full))
    return z3.simplify(r)


class Uninit:
    def __repr__(self):
        return '<uninit>'


class F80Program(Program):
    def __init__(self, text):
        Program.__init__(self, text, 'f80')
        self.resolvers.append(F80Program._resolve)
        self.const_resolvers.append(F80Program._const)
        self.fresh = 0
        self.asm_templates = []
        self.solver_timeout_ms = 60000      # feasibility queries here are floating-point queries
        M = self.model

        @M(r'^MaybeUninit::<(.*)>::uninit$', regex=True)
        def _(m, fr, a, mm):
            return [Uninit()]

        @M(r'^MaybeUninit::<(.*)>::(as_mut_ptr|as_ptr)$', regex=True)
        def _(m, fr, a, mm):
            mu = a[0].load() if isinstance(a[0], Ref) else a[0]
            return Ref(mu, 0)

        @M(r'^MaybeUninit::<(.*)>::assume_init$', regex=True)
        def _(m, fr, a, mm):
            v = a[0][0]
            if isinstance(v, Uninit):
                raise Unsupported('assume_init of memory the template did not write')
            return v

        @M(r'^MaybeUninit::<(.*)>::new$', regex=True)
        def _(m, fr, a, mm):
            return [a[0]]

        @M(r'^core::slice::<impl \[u8\]>::(as_ptr|as_mut_ptr)$', regex=True)
        def _(m, fr, a, mm):
            sl = a[0]
            if isinstance(sl, Ref):
                sl = sl.load()
            if isinstance(sl, SliceRef):
                return Opaque('ptr', (sl.arr, sl.start))
            if isinstance(sl, Arr):
                return Opaque('ptr', (sl, 0))
            raise Unsupported('as_ptr of %r' % (sl,))

        @M(r'^core::array::<impl \[u8; 10\]>::(as_ptr|as_mut_ptr|as_slice|as_mut_slice)$', regex=True)
        def _(m, fr, a, mm):
            arr = a[0].load() if isinstance(a[0], Ref) else a[0]
            return Opaque('ptr', (arr, 0)) if 'ptr' in mm.group(1) else SliceRef(arr, 0, 10)

        @M(r'^core::f64::<impl f64>::(is_nan|is_infinite|is_finite|is_sign_negative|is_sign_positive|abs|to_bits)$', regex=True)
        def _(m, fr, a, mm):
            x = a[0].fp
            k = mm.group(1)
            if k == 'is_nan':
                return mk_bool(z3.fpIsNaN(x))
            if k == 'is_infinite':
                return mk_bool(z3.fpIsInf(x))
            if k == 'is_finite':
                return mk_bool(z3.Not(z3.Or(z3.fpIsInf(x), z3.fpIsNaN(x))))
            if k == 'abs':
                return F(z3.fpAbs(x))
            if k in ('is_sign_negative', 'is_sign_positive'):
                neg = z3.Extract(63, 63, z3.fpToIEEEBV(x)) == 1
                return mk_bool(neg if k == 'is_sign_negative' else z3.Not(neg))
            return mk_int(z3.fpToIEEEBV(x), 'u64')

        @M(r'^core::f64::<impl f64>::from_bits$', regex=True)
        def _(m, fr, a, mm):
            return F(z3.fpBVToFP(a[0].z(), F64))

        from .stdmodel import install_std_models
        install_std_models(self)

    # ---- trait dispatch inside the crate
    def _resolve(self, fr, callee):
        m = re.match(r'^<(&?\w+) as ([\w:]+?)(?:<(.*)>)?>::(\w+)$', callee)
        if m and m.group(1).lstrip('&') in ('f80', 'f64'):
            self_ty, trait, targ, meth = m.group(1).lstrip('&'), m.group(2).split('::')[-1], m.group(3), m.group(4)
            c = [f for f in self.fns if f.name.endswith('::' + meth) and f.name.startswith('<impl at') and 'promoted' not in f.name]
            if trait == 'From':
                c = [f for f in c if f.argnames and f.types.get(f.argnames[0]) == targ and f.ret == self_ty]
            elif trait == 'Into':
                c = [f for f in self.fns if f.name.endswith('::from') and f.argnames and f.types.get(f.argnames[0]) == self_ty and f.ret == targ]
            else:
                c = [f for f in c if f.argnames and f.types.get(f.argnames[0], '').replace('&', '').replace('mut ', '').strip() == self_ty]
            if len(c) == 1:
                return c[0], {}
            if len(c) > 1:
                raise Unsupported('ambiguous impl for ' + callee)
            return None
        if re.match(r'^\w+$', callee):
            c = [f for f in self.fns if f.name == callee and getattr(f, 'kind', None) is None]
            if len(c) == 1:
                return c[0], {}
        m = re.match(r'^f80::(\w+)$', callee)
        if m:
            c = [f for f in self.fns if f.name.endswith('::' + m.group(1)) and f.name.startswith('<impl at') and f.argnames and 'f80' in f.types.get(f.argnames[0], '')]
            if len(c) == 1:
                return c[0], {}
        return None

    def _const(self, m, fr, s):
        mm = re.match(r'^(-?(?:\d+(?:\.\d+)?(?:[eE][+-]?\d+)?|inf|NaN))f64$', s)
        if mm:
            t = mm.group(1)
            if t in ('inf', '-inf'):
                return F(z3.fpMinusInfinity(F64) if t[0] == '-' else z3.fpPlusInfinity(F64))
            if t == 'NaN':
                return F(z3.fpNaN(F64))
            v = z3.FPVal(float(t), F64)
            if t.startswith('-') and float(t) == 0.0:
                v = z3.fpMinusZero(F64)
            return F(v)
        if s in ('f64::NAN', 'core::f64::<impl f64>::NAN'):
            return F(z3.fpNaN(F64))
        mm = re.match(r'^<f80 as (?:rlib_num_traits::)?(\w+)>::(\w+)$', s)
        if mm:
            c = [f for f in self.fns if getattr(f, 'kind', None) in ('const', 'const-inline') and f.name.endswith('::' + mm.group(2)) and 'promoted' not in f.name]
            if len(c) == 1:
                if c[0].kind == 'const-inline':
                    return m.const(fr, c[0].value)
                return m.run(c[0], [], {})
            raise Unsupported('associated constant %s (%d candidates)' % (s, len(c)))
        return None

    # ---- inline assembly
    def on_asm(self, m, fr, template, operands):
        tmpl = template.replace('\\n', '\n')
        lines = [l for l in tmpl.split('\n') if l.strip()]
        self.asm_templates.append(' ; '.join(re.sub(r'\s+', ' ', l.strip()) for l in lines))
        ins, outs = {}, []
        idx = 0
        stores = {}
        for o in operands:
            if o[0] == 'options':
                continue
            if o[0] == 'in':
                v = m.operand(fr, o[2])
                ins[idx] = v
                idx += 1
            else:
                outs.append((idx, o[1], o[2]))
                idx += 1
        # memory operands: which width each is used with is decided by the instructions
        ops = {}
        for k, v in ins.items():
            used = set(re.findall(r'(TBYTE|QWORD|DWORD) PTR \[\{%d\}\]' % k, tmpl))
            loads = re.findall(r'fld\s+(TBYTE|QWORD) PTR \[\{%d\}\]' % k, tmpl)
            if not used:
                raise Unsupported('asm input operand {%d} is not a modelled memory operand' % k)
            if loads:
                w = loads[0]
                if w == 'TBYTE':
                    if not (isinstance(v, Opaque) and v.tag == 'ptr'):
                        raise Unsupported('TBYTE load through %r' % (v,))
                    arr, st = v.payload
                    if arr.n - st < 10:
                        raise Unsupported('TBYTE load from fewer than 10 bytes')
                    ops[k] = ('f80', fp_of_bytes(arr, st))
                else:
                    tgt = v.load() if isinstance(v, Ref) else v
                    if not isinstance(tgt, F):
                        raise Unsupported('QWORD load of %r' % (tgt,))
                    ops[k] = ('f64', tgt.fp)
            else:
                ops[k] = ('f80' if 'TBYTE' in used else 'f64', None)
        mach = X87(ops)
        try:
            mach.run(lines)
        except x87sym.Unsupported as e:
            raise Unsupported('x87sym: %s' % e)
        for k, (kind, val) in mach.out.items():
            ptr = ins.get(k)
            if kind == 'f80':
                if isinstance(ptr, Ref):
                    ptr.store([F80Bytes(val)])              # *mut f80: the struct with its byte array
                elif isinstance(ptr, Opaque) and ptr.tag == 'ptr':
                    arr, st = ptr.payload
                    if isinstance(arr, F80Bytes) and st == 0:
                        arr.fp = val
                        arr.d = {}
                    else:
                        full = enc80(val)
                        for i in range(10):
                            arr.set(st + i, mk_int(z3.Extract(8 * i + 7, 8 * i, full), 'u8'))
                else:
                    raise Unsupported('TBYTE store through %r' % (ptr,))
            else:
                if not isinstance(ptr, Ref):
                    raise Unsupported('QWORD store through %r' % (ptr,))
                ptr.store(F(val))
        for k, reg, place in outs:
            if place is None:
                continue
            ty = fr.fn.types.get(place[1]) if place[0] == 'local' else None
            nb = BITS.get(ty or '', 32)
            low = {'al': 'al', 'ax': 'al', 'eax': 'al', 'rax': 'al'}.get(reg)
            if low is None or 'al' not in mach.regs:
                raise Unsupported('asm output register %s is not written by a modelled instruction' % reg)
            self.fresh += 1
            bit = z3.If(mach.regs['al'], z3.BitVecVal(1, 8), z3.BitVecVal(0, 8))
            val = z3.Concat(z3.BitVec('reg_garbage!%d' % self.fresh, nb - 8), bit) if nb > 8 else bit
            m.lookup(fr, place).store(mk_int(val, ty or 'u32'))

    # ---- floats in MIR rvalues
    def float_binop(self, m, op, a, b):
        if not (isinstance(a, F) and isinstance(b, F)):
            raise Unsupported('mixed float operation %s' % op)
        x, y = a.fp, b.fp
        if op in ('Eq', 'Ne', 'Lt', 'Le', 'Gt', 'Ge'):
            r = {'Eq': z3.fpEQ, 'Ne': z3.fpNEQ, 'Lt': z3.fpLT, 'Le': z3.fpLEQ, 'Gt': z3.fpGT, 'Ge': z3.fpGEQ}[op](x, y)
            return mk_bool(r)
        if op in ('Add', 'Sub', 'Mul', 'Div'):
            return F({'Add': z3.fpAdd, 'Sub': z3.fpSub, 'Mul': z3.fpMul, 'Div': z3.fpDiv}[op](RNE, x, y), a.ty)
        raise Unsupported('float operation ' + op)


    def float_cast(self, m, kind, ty, v):
        if kind == 'IntToFloat' and ty == 'f64' and isinstance(v, I):
            z = v.z()
            return F(z3.fpToFP(RNE, z, F64) if v.ty[0] == 'i' else z3.fpToFPUnsigned(RNE, z, F64))
        if kind == 'IntToFloat' and ty == 'f64' and isinstance(v, (bool, z3.BoolRef)):
            raise Unsupported('bool to float')
        raise Unsupported('cast %s to %s' % (kind, ty))


class MirF80Model:
    """same interface as x87sym.F80Model, but every operation is the real MIR function (glue on the MIR, asm via X87)"""

    def __init__(self, mir_text):
        self.P = F80Program(mir_text)
        self.encoded = []
        self.panic_conds = []
        self.queries = 0

    def _fn(self, name, argtys, ret=None):
        c = [f for f in self.P.fns if f.name.startswith('<impl at') and f.name.endswith('::' + name) and 'promoted' not in f.name
             and [self._norm(f.types.get(a, '')) for a in f.argnames] == argtys and (ret is None or f.ret == ret)]
        if len(c) != 1:
            raise Unsupported('cannot locate a unique fn %s(%s) in the MIR of rlib_f80 (%d candidates)' % (name, ', '.join(argtys), len(c)))
        return c[0]

    @staticmethod
    def _norm(t):
        return t.replace("'_ ", '').strip()

    def _run(self, f, mkargs):
        def body(m):
            return m.run(f, mkargs(), {})
        paths = explore(self.P, body, max_paths=256)
        out = []
        for p in paths:
            self.queries += p['machine'].nq
            if p['status'] != 'ok':
                self.panic_conds.append((f.name.split('::')[-1], z3.And(p['pc']) if p['pc'] else z3.BoolVal(True), p['status']))
                continue
            out.append((z3.And(p['pc']) if p['pc'] else z3.BoolVal(True), p['outcome']))
        if not out:
            raise Unsupported('%s panics on every path' % f.name)
        name = f.name.split('::')[-1]
        if name not in [e.split(' ')[0] for e in self.encoded]:
            t = sorted(set(self.P.asm_templates))
            self.encoded.append('%s (MIR, %d path%s)' % (name, len(out), '' if len(out) == 1 else 's'))
        return out

    @staticmethod
    def _merge(paths, conv):
        acc = conv(paths[-1][1])
        for pc, r in reversed(paths[:-1]):
            acc = z3.If(pc, conv(r), acc)
        return acc

    @staticmethod
    def _f80(fp):
        return [F80Bytes(fp)]

    @staticmethod
    def _fp80(v):
        if isinstance(v, Ref):
            v = v.load()
        return fp_of_bytes(v[0])

    @staticmethod
    def _bool(v):
        return zbool(v)

    def widen(self, x64):
        f = self._fn('from', ['f64'], 'f80')
        return self._merge(self._run(f, lambda: [F(x64)]), self._fp80)

    def narrow(self, x80):
        f = self._fn('from', ['f80'], 'f64')
        return self._merge(self._run(f, lambda: [self._f80(x80)]), lambda r: r.fp)

    def binop(self, fun, a, b):
        f = self._fn(fun, ['f80', 'f80'], 'f80')
        return self._merge(self._run(f, lambda: [self._f80(a), self._f80(b)]), self._fp80)

    def unop(self, fun, a):
        f = self._fn(fun, ['f80'], 'f80')
        return self._merge(self._run(f, lambda: [self._f80(a)]), self._fp80)

    def method(self, name, a, b, depth=0):
        try:
            f = self._fn(name, ['&f80', '&f80'], 'bool')
        except Unsupported:
            if name == 'ne':        # not overridden: the trait's default `!self.eq(other)`
                return z3.Not(self.method('eq', a, b))
            if name in ('lt', 'le', 'gt', 'ge'):
                # not overridden: the trait's default in terms of partial_cmp
                pc = self.partial_cmp(a, b)
                return {'lt': pc['Less'], 'gt': pc['Greater'], 'le': z3.Or(pc['Less'], pc['Equal']), 'ge': z3.Or(pc['Greater'], pc['Equal'])}[name]
            raise
        return self._merge(self._run(f, lambda: [Ref([self._f80(a)], 0), Ref([self._f80(b)], 0)]), self._bool)

    def partial_cmp(self, a, b):
        f = self._fn('partial_cmp', ['&f80', '&f80'])
        paths = self._run(f, lambda: [Ref([self._f80(a)], 0), Ref([self._f80(b)], 0)])
        out = {None: [], 'Less': [], 'Equal': [], 'Greater': []}
        for pc, r in paths:
            if r.variant == 'None':
                out[None].append(pc)
            else:
                o = r.fields[0]
                k = o.variant if isinstance(o, Enum) else {-1: 'Less', 0: 'Equal', 1: 'Greater'}[o.sval()]
                out[k].append(pc)
        return {k: (z3.Or(v) if v else z3.BoolVal(False)) for k, v in out.items()}

    def minmax(self, name, a, b):
        f = self._fn(name, ['f80', 'f80'], 'f80')
        return self._merge(self._run(f, lambda: [self._f80(a), self._f80(b)]), self._fp80)

    def abs(self, a):
        f = self._fn('abs', ['f80'], 'f80')
        return self._merge(self._run(f, lambda: [self._f80(a)]), self._fp80)
