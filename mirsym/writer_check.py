"""C09: Writer delivers exactly the formatted bytes in order; round trip through Reader (mirsym driver).

Per script the reference rendering runs first on the symbolic values (forking on sign and digit count through the solver),
then the real MIR of rlib_io::Writer runs from a constructed pre-state (buffer fill level end = BUF - k) with a recording sink.
Decided per path: sink == prefix ++ concatenation of the reference renderings (nothing lost, duplicated or reordered), no panic;
optionally the produced text is fed to the MIR of Reader and must parse back to the original values."""
import z3, time, subprocess, os, tempfile
from .core import (Machine, explore, Unsupported, Panic, PathLimit, I, Arr, Vec, Ref, SliceRef, Enum, Opaque, BITS, mk_bool, mk_int, mk_dec, dec_fits, dec_limit, split_top)
from .iomodel import IoProgram, WriteEnv, ReadEnv
from .reader_check import norm, diff_terms, shape, show

FILL = 46  # '.' : the bytes already sitting in the buffer when the script starts


class Oblig:
    """decide `pc => claim`: z3 first (short cap), then cvc5 with integer blasting (divide-by-10 chains)"""
    def __init__(self, z3_cap_ms=10000, cvc5_cap_s=120):
        self.z3_cap, self.cvc5_cap = z3_cap_ms, cvc5_cap_s
        self.n = self.n_cvc5 = 0
        self.time = 0.0

    def refute(self, pc, neg_claim):
        """-> ('unsat', None) | ('sat', model-or-None) | ('unknown', reason)"""
        self.n += 1
        t0 = time.time()
        s = z3.Solver()
        s.set('timeout', self.z3_cap)
        s.add(pc)
        s.add(neg_claim)
        r = s.check()
        if r == z3.unsat:
            self.time += time.time() - t0
            return 'unsat', None
        if r == z3.sat:
            self.time += time.time() - t0
            return 'sat', s.model()
        # cvc5, bit-vectors solved as integers
        self.n_cvc5 += 1
        smt = "(set-logic ALL)\n" + s.to_smt2()
        # z3 prints its internal "divisor known non-zero" operators; the divisors here are the constants 10^k
        for a in ('bvudiv', 'bvurem', 'bvsdiv', 'bvsrem', 'bvsmod'):
            smt = smt.replace(a + '_i', a)
        with tempfile.NamedTemporaryFile('w', suffix='.smt2', delete=False) as f:
            f.write(smt)
            path = f.name
        try:
            out = subprocess.run(['cvc5', '--lang', 'smt2', '--solve-bv-as-int=sum', '--tlimit=%d' % (self.cvc5_cap * 1000), path],
                                 stdout=subprocess.PIPE, stderr=subprocess.STDOUT, text=True, timeout=self.cvc5_cap + 30).stdout.strip()
        except subprocess.TimeoutExpired:
            out = 'timeout'
        finally:
            os.unlink(path)
        self.time += time.time() - t0
        first = out.split('\n')[0] if out else ''
        if '(error' in out:
            return 'unknown', 'cvc5 error: ' + out[:200]
        if first == 'unsat':
            return 'unsat', None
        if first == 'sat':
            return 'sat', None
        return 'unknown', 'z3 unknown and cvc5 said %r' % out[:80]


def ref_render_int(m, v):
    """reference decimal rendering of I `v` -> list of I(u8) terms; forks on sign and digit count"""
    bits = BITS[v.ty]
    signed = v.ty[0] == 'i'
    W = bits
    x = v.z()
    out = []
    if signed and m.branch_bool(mk_bool(x < 0)):
        out.append(I(45, 'u8'))
        x = -x          # as an unsigned quantity: MIN maps to 2^(bits-1)
    # digit count n: 10^(n-1) <= x < 10^n (x = 0 -> one digit)
    maxd = len(str((1 << bits) - 1))
    n = 1
    while n < maxd and m.branch_bool(mk_bool(z3.UGE(x, z3.BitVecVal(10 ** n, W)))):
        n += 1
    if bits < 32:
        for i in range(n):
            p = 10 ** (n - 1 - i)
            d = z3.URem(z3.UDiv(x, z3.BitVecVal(p, W)), z3.BitVecVal(10, W))
            out.append(mk_int(z3.Extract(7, 0, d) + 48, 'u8'))
        return out
    # wide types: the reference is the characterisation of decimal notation itself - n digits d_i in 0..=9, no leading zero,
    # sum d_i * 10^(n-1-i) = x - checked on the DELIVERED bytes (uniqueness of the decimal expansion is mathematics).
    # A placeholder per digit carries the obligation; see WriterCheck.check_script.
    for i in range(n):
        out.append(('digit', x, n, i))
    return out


class WriterCheck:
    def __init__(self, prog, buf_size):
        self.prog = prog
        self.buf_size = buf_size
        self.ob = Oblig()

    def new_writer(self, k, m=None):
        return self.prog.fresh_writer(m if m is not None else Machine(self.prog), k, FILL)

    # ---- script values
    def make_values(self, script, m):
        """-> list of (op, impl value, reference bytes)"""
        vals = []
        cnt = [0]
        def fresh(bits, name):
            cnt[0] += 1
            return z3.BitVec('%s%d' % (name, cnt[0]), bits)
        def chars(n):
            cs = []
            for _ in range(n):
                c = fresh(8, 'ch')
                m.assume(z3.And(z3.UGE(c, 33), z3.ULE(c, 126)))
                cs.append(I(c, 'u8'))
            return cs
        def one(ty):
            if '#' in ty:
                # "<type>#<n>": the value parametrised by n decimal digits (non-negative)
                t, n = ty.split('#')
                n = int(n)
                ds = [fresh(8, 'dg') for _ in range(n)]
                for d in ds:
                    m.assume(z3.ULE(d, 9))
                if n > 1:
                    m.assume(ds[-1] != 0)
                m.assume(dec_fits(ds, dec_limit(t, False)))
                mag = mk_dec(ds, t)
                return mag, [mk_int(d + 48, 'u8') for d in reversed(ds)]
            if ty in BITS and ty not in ('char', 'bool'):
                v = I(fresh(BITS[ty], 'v'), ty)
                return v, ref_render_int(m, v)
            if ty == 'char':
                c = fresh(8, 'ch')
                m.assume(z3.And(z3.UGE(c, 33), z3.ULE(c, 126)))
                return mk_int(z3.ZeroExt(24, c), 'char'), [I(c, 'u8')]
            raise Unsupported('value type ' + ty)
        for op in script:
            if op[0] == 'int':
                v, r = one(op[1])
                vals.append((op, Ref([v], 0), r))
            elif op[0] == 'intd':
                # the value is parametrised by its decimal digits: n symbolic digits (leading one non-zero unless n = 1),
                # optionally negated; together the instances (type, n, sign) cover the full range of the type
                ty, n, neg = op[1], op[2], op[3]
                bits = BITS[ty]
                ut = ty if ty[0] == 'u' else 'u' + ty[1:]
                ds = [fresh(8, 'dg') for _ in range(n)]      # least significant first
                for d in ds:
                    m.assume(z3.ULE(d, 9))
                if n > 1:
                    m.assume(ds[-1] != 0)
                m.assume(dec_fits(ds, dec_limit(ty, neg)))   # the value fits the type (digit-wise comparison with the limit)
                mag = mk_dec(ds, ut)
                if neg:
                    m.assume(z3.Or([d != 0 for d in ds]))
                    v = I(z3.simplify(-mag.z()), ty, negof=mag)
                else:
                    v = I(mag.v, ty, dec=mag.dec)
                ref = ([I(45, 'u8')] if neg else []) + [mk_int(d + 48, 'u8') for d in reversed(ds)]
                vals.append((('int', ty), Ref([v], 0), ref))
            elif op[0] == 'intw':
                # window: base + s, s an arbitrary 16-bit offset (wide types: full-range digit arithmetic does not finish)
                bits = BITS[op[1]]
                sv = fresh(16, 'w')
                v = I(z3.BitVecVal(op[2] & ((1 << bits) - 1), bits) + z3.ZeroExt(bits - 16, sv), op[1])
                vals.append((('int', op[1]), Ref([v], 0), ref_render_int(m, v)))
            elif op[0] == 'char':
                v, r = one('char')
                vals.append((op, v, r))
            elif op[0] in ('str', 'string'):
                cs = chars(op[1])
                arr = Arr(len(cs), I(0, 'u8'), dict(enumerate(cs)))
                sl = SliceRef(arr, 0, len(cs))
                vals.append((op, Ref([sl], 0) if op[0] == 'str' else Ref([Vec(list(cs), True)], 0), cs))
            elif op[0] == 'fill':      # n filler bytes as one &str (fast path to a fill level)
                cs = [I(120, 'u8')] * op[1]
                arr = Arr(op[1], I(120, 'u8'))
                vals.append((op, Ref([SliceRef(arr, 0, op[1])], 0), cs))
            elif op[0] == 'vec':
                items, ref = [], []
                for i in range(op[2]):
                    v, r = one(op[1])
                    items.append(v)
                    if i:
                        ref.append(I(32, 'u8'))
                    ref += r
                vals.append((op, Ref([Vec(items)], 0), ref))
            elif op[0] == 'tuple':
                items, ref = [], []
                for i, t in enumerate(op[1]):
                    v, r = one(t)
                    items.append(v)
                    if i:
                        ref.append(I(32, 'u8'))
                    ref += r
                vals.append((op, Ref([items], 0), ref))
            elif op[0] == 'flush':
                vals.append((op, None, []))
            else:
                raise Unsupported('writer script op %r' % (op,))
        return vals

    def run_op(self, m, wref, op, val):
        P = self.prog
        if op[0] == 'flush':
            return m.run(P.writer_fns['flush'], [wref], {})
        if op[0] == 'char':
            return m.run(P.writer_fns['write_char'], [wref, val], {})
        ty = {'int': op[1] if op[0] == 'int' else None, 'str': 'str', 'fill': 'str', 'string': 'String'}.get(op[0])
        if op[0] == 'vec':
            ty = 'Vec<%s>' % op[1]
        if op[0] == 'tuple':
            ty = '(' + ', '.join(t.split('#')[0] for t in op[1]) + ')'
        # the public entry point Writer::write::<T> (flushes per write in debug builds)
        return m.run(P.writer_fns['write'], [wref, val], {'T': ty})

    def body(self, script, k, end_with):
        def run(m):
            vals = self.make_values(script, m)
            nref = len(m.trace)
            w, end0 = self.new_writer(k, m)
            env = WriteEnv()
            m.env = env
            slot = [w]
            wref = Ref(slot, 0)
            rec = {'vals': vals, 'env': env, 'end0': end0, 'nref': nref, 'defs': list(getattr(m, 'refdefs', []))}
            m.events.append(rec)
            for op, val, _ in vals:
                self.run_op(m, wref, op, val)
            if end_with == 'drop':
                m.run(self.prog.writer_fns['drop'], [wref], {})
            else:
                m.run(self.prog.writer_fns['flush'], [wref], {})
            rec['end_after'] = w[1]
            return rec
        return run

    def check_script(self, script, k=None, end_with='flush', roundtrip=None, reader_prog=None, max_paths=5000):
        # plain symbolic values of narrow types (not digit-parametrised): table lookups at a symbolic index may be expanded into
        # if-then-else windows; with wide types the same expansion produced queries that ran for hours, so it stays off there
        narrow = [op for op in script if op[0] == 'int' and BITS.get(op[1], 128) <= 16]
        self.prog.allow_sym_window = bool(narrow) and all(op[0] in ('int', 'flush', 'char', 'str') for op in script) and len(narrow) == sum(1 for op in script if op[0] == 'int')
        paths = explore(self.prog, self.body(script, k, end_with), max_paths=max_paths)
        viol, n_obl, inconc = [], 0, []
        for p in paths:
            rec = p['outcome'] if p['outcome'] is not None else (p['events'][0] if p['events'] else None)
            if rec is None:
                raise Unsupported('path without record: ' + p['status'])
            base = dict(script=repr(script), k=k, end_with=end_with)
            if p['status'] != 'ok':
                st, mdl = self.ob.refute(p['pc'], [])
                viol.append(dict(base, kind='panic', detail=p['status'], model=self.model_vals(mdl, rec)))
                continue
            sink = rec['env'].sink
            exp = [None] * rec['end0']
            for _, _, r in rec['vals']:
                exp += r
            n_obl += 1
            if len(sink) != len(exp):
                st, mdl = self.ob.refute(p['pc'], [])
                viol.append(dict(base, kind='sink-length', detail='sink has %d bytes, expected %d (flush calls: %s)' % (len(sink), len(exp), rec['env'].calls),
                                 model=self.model_vals(mdl, rec)))
                continue
            diffs = []
            bad_prefix = False
            groups = {}
            for i, (a, b) in enumerate(zip(sink, exp)):
                if isinstance(b, tuple):
                    # digit placeholder of a wide integer: collect the delivered bytes of this number
                    groups.setdefault((b[1].get_id(), b[2]), (b[1], b[2], []))[2].append(a)
                    continue
                if b is None:
                    if a.sym() or a.v != FILL:
                        bad_prefix = True
                    continue
                if not a.sym() and not b.sym():
                    if a.v != b.v:
                        diffs.append(z3.BoolVal(True))
                    continue
                diffs.append(a.z() != b.z())
            if bad_prefix:
                st, mdl = self.ob.refute(p['pc'], [])
                viol.append(dict(base, kind='sink-order', detail='bytes written earlier are not delivered first', model=self.model_vals(mdl, rec)))
                continue
            if not z3.is_false(z3.simplify(rec['end_after'].z() != 0)):
                st, mdl = self.ob.refute(p['pc'], [])
                viol.append(dict(base, kind='not-flushed', detail='buffer not empty after the final flush/drop', model=self.model_vals(mdl, rec)))
                continue
            for x, n, bs in groups.values():
                W = x.size() + 8
                acc = z3.BitVecVal(0, W)
                for j, a in enumerate(bs):
                    dz = a.z() - 48
                    diffs.append(z3.UGT(dz, 9))
                    if j == 0 and n > 1:
                        diffs.append(dz == 0)
                    acc = acc * 10 + z3.ZeroExt(W - 8, dz)
                diffs.append(acc != z3.ZeroExt(8, x))
            diffs = [d for d in diffs if not z3.is_false(z3.simplify(d))]
            if diffs:
                st, mdl = self.ob.refute(p['pc'] + rec['defs'], [z3.Or(diffs)])
                if st == 'sat':
                    viol.append(dict(base, kind='sink-content', detail='delivered bytes differ from the reference rendering', model=self.model_vals(mdl, rec)))
                elif st == 'unknown':
                    inconc.append('render obligation undecided: %s' % mdl)
            # ---- round trip through Reader
            if roundtrip and reader_prog is not None:
                n_obl += 1
                from .reader_check import ReaderCheck
                rm = Machine(reader_prog)
                rm.cache = {}
                data = sink[rec['end0']:]
                rm.env = ReadEnv(data, 0, fixed_schedule=[])
                for c in p['pc']:
                    rm.assume(c)
                rc = ReaderCheck(reader_prog, [], reader_prog.buf_size('reader'))
                slot = [rc.new_reader(rm)]
                try:
                    got = [norm(rc.run_impl_op(rm, Ref(slot, 0), o)) for o in roundtrip]
                except Panic as e:
                    viol.append(dict(base, kind='roundtrip-panic', detail=str(e), model=None))
                    continue
                if rm.trace and any(n > 1 for _, n in rm.trace):
                    inconc.append('reader forked on the rendered text (path not determined by the writer path)')
                    continue
                orig = []
                for op, val, _ in rec['vals']:
                    if op[0] == 'int':
                        orig.append(('int', val.load()))
                    elif op[0] == 'tuple':
                        orig.append(('tuple', [('int', x) for x in val.load()]))
                    elif op[0] == 'vec':
                        orig.append(('vec', [('int', x) for x in val.load().items]))
                if [shape(x) for x in orig] != [shape(x) for x in got]:
                    viol.append(dict(base, kind='roundtrip-shape', detail='%s vs %s' % ([shape(x) for x in orig], [shape(x) for x in got]), model=None))
                    continue
                d = []
                for a, b in zip(orig, got):
                    d += diff_terms(a, b)
                d = [x for x in d if not z3.is_false(z3.simplify(x))]
                if d:
                    st, mdl = self.ob.refute(rm.pc, [z3.Or(d)])  # originals vs parsed: no reference digits involved
                    if st == 'sat':
                        viol.append(dict(base, kind='roundtrip-value', detail='reading the produced text back gives a different value', model=self.model_vals(mdl, rec)))
                    elif st == 'unknown':
                        inconc.append('round-trip obligation undecided: %s' % mdl)
        return dict(paths=len(paths), obligations=n_obl, violations=viol, inconclusive=inconc)

    @staticmethod
    def model_vals(mdl, rec):
        if mdl is None or isinstance(mdl, str):
            return None
        out = []
        for op, val, _ in rec['vals']:
            def ev(i):
                if not isinstance(i, I):
                    return None
                if not i.sym():
                    return i.sval()
                return I(mdl.eval(i.v, model_completion=True).as_long(), i.ty).sval()
            if op[0] == 'int':
                out.append((op[1], ev(val.load())))
            elif op[0] in ('str', 'string'):
                src = val.load()
                items = src.values() if isinstance(src, SliceRef) else src.items
                out.append((op[0], ''.join(chr(ev(c)) for c in items)))
            elif op[0] == 'char':
                out.append(('char', ev(val)))
            elif op[0] == 'tuple':
                out.append(('tuple', [ev(x) for x in val.load()]))
            elif op[0] == 'vec':
                out.append(('vec', [ev(x) for x in val.load().items]))
            else:
                out.append((op[0], op[1] if len(op) > 1 else None))
        return out
