#!/bin/sh
# offline setup: verify the tools the checks need; harness crates are (re)built by the checks themselves
set -e
cd "$(dirname "$0")"
export CARGO_NET_OFFLINE=true
cargo kani --version
python3-vt -c "import z3; print('z3', z3.get_version_string())"
mkdir -p .build evidence replays
echo setup ok
